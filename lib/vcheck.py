"""Driver shared by bin/check: builds the harness against /repo's working tree, runs TLC jobs,
replays TLC's behaviours into the implementation / validates recorded traces, applies the
known-findings file, writes evidence/<id>.json and reports violations."""
import hashlib, json, os, re, subprocess, sys, time, shutil

VERIF = os.path.dirname(os.path.dirname(os.path.abspath(__file__)))
SPEC = os.path.join(VERIF, 'spec')
HARNESS = os.path.join(VERIF, 'harness')
WORK = os.path.join(VERIF, 'work')
# the tree under test; only the seeded-change sweeps (bin/sweep-seeded in a sandbox copy) point this anywhere else
REPO = os.environ.get('VERIF_REPO', '/repo')
TLA_CP = '/opt/veriftools/tla/tla2tools.jar:/opt/veriftools/tla/CommunityModules-deps.jar'
NCPU = os.cpu_count() or 8


class ToolError(Exception):
    pass


def log(*a):
    print(*a, file=sys.stderr, flush=True)


def env_offline():
    e = dict(os.environ)
    e.update(CARGO_NET_OFFLINE='true')
    e.pop('RUSTFLAGS', None)
    return e


_built = {}


def build_harness(profile):
    """profile: 'debug' | 'release'. Rebuilds from /repo's current working tree (path dependency)."""
    if profile in _built:
        return _built[profile]
    cmd = ['cargo', 'build', '--offline', '--quiet'] + (['--release'] if profile == 'release' else [])
    t = time.time()
    p = subprocess.run(cmd, cwd=HARNESS, env=env_offline(), stdout=subprocess.PIPE, stderr=subprocess.STDOUT, text=True)
    if p.returncode != 0:
        log(p.stdout[-4000:])
        raise ToolError('harness build failed (%s)' % profile)
    path = os.path.join(HARNESS, 'target', profile, 'vh')
    _built[profile] = path
    log('[build] %s harness in %.1fs' % (profile, time.time() - t))
    return path


def build_rrss_bin():
    """The rrss command-line binary built from /repo's working tree (guard off), in a target dir of our own."""
    if 'rrss' in _built:
        return _built['rrss']
    tdir = os.path.join(WORK, 'rrss-target')
    p = subprocess.run(['cargo', 'build', '--offline', '--quiet', '--bin', 'rrss', '--target-dir', tdir],
                       cwd=REPO, env=env_offline(), stdout=subprocess.PIPE, stderr=subprocess.STDOUT, text=True)
    if p.returncode != 0:
        log(p.stdout[-4000:])
        raise ToolError('rrss binary build failed')
    _built['rrss'] = os.path.join(tdir, 'debug', 'rrss')
    return _built['rrss']


def run_tlc(module, cfg, outfile, workers=None, simulate=None, timeout=1800, extra_env=None, coverage=False,
            seed=None, depth_first=False, xss=None, heap='8g'):
    """Runs TLC; returns dict(states, distinct, ok, error, wall, coverage)."""
    workers = workers or min(NCPU, 16)
    md = outfile + '.md'
    shutil.rmtree(md, ignore_errors=True)
    java = ['java', '-XX:+UseParallelGC', '-Xmx' + heap]
    if xss:
        java.append('-Xss' + xss)
    if depth_first:
        java.append('-Dtlc2.tool.queue.IStateQueue=StateDeque')
    cmd = java + ['-cp', TLA_CP, 'tlc2.TLC', '-workers', str(workers), '-metadir', md, '-cleanup',
                  '-noGenerateSpecTE', '-config', cfg]
    if coverage:
        cmd += ['-coverage', '1']
    if simulate:
        cmd += ['-simulate', simulate]
    if seed is not None:
        cmd += ['-seed', str(seed)]
    cmd.append(module)
    env = dict(os.environ)
    if extra_env:
        env.update(extra_env)
    t = time.time()
    with open(outfile, 'w') as out:
        try:
            p = subprocess.run(cmd, cwd=SPEC, env=env, stdout=out, stderr=subprocess.STDOUT, timeout=timeout)
            rc = p.returncode
        except subprocess.TimeoutExpired:
            rc = -9
    wall = time.time() - t
    shutil.rmtree(md, ignore_errors=True)
    res = dict(states=0, distinct=0, ok=False, error=None, wall=wall, rc=rc, actions={}, outfile=outfile)
    err_lines = []
    with open(outfile, errors='replace') as f:
        for line in f:
            if line.startswith('<<"R"'):
                continue
            m = re.match(r'(\d+) states generated, (\d+) distinct states found', line)
            if m:
                res['states'], res['distinct'] = int(m.group(1)), int(m.group(2))
            m = re.match(r'The number of states generated: (\d+)', line)  # simulation mode
            if m:
                res['states'] = res['distinct'] = int(m.group(1))
            if line.startswith('Error:') or 'is violated' in line or line.startswith('Exception'):
                err_lines.append(line.strip())
            m = re.match(r'<(\w+) line \d+, col \d+ to line \d+, col \d+ of module (\w+)>: (\d+):(\d+)', line)
            if m:
                res['actions'][m.group(2) + '!' + m.group(1)] = int(m.group(4))
            if 'Model checking completed. No error has been found' in line or 'Finished in' in line:
                pass
    if rc == -9:
        res['error'] = 'timeout after %ds' % timeout
    elif err_lines:
        res['error'] = '; '.join(err_lines[:4])
    elif rc != 0:
        res['error'] = 'tlc exit code %d' % rc
    else:
        res['ok'] = True
    return res


def run_replay(family, infile, profile='debug', jobs=None, timeout_ms=10000, extra=None, env=None):
    binp = build_harness(profile)
    cmd = [binp, 'replay', family, '--in', infile, '--jobs', str(jobs or min(NCPU, 12)), '--timeout-ms', str(timeout_ms)]
    if extra:
        cmd += extra
    t = time.time()
    e = dict(os.environ)
    e.update(env or {})
    p = subprocess.run(cmd, stdout=subprocess.PIPE, stderr=subprocess.PIPE, text=True, env=e)
    try:
        summary = json.loads(p.stdout.strip().splitlines()[-1])
    except Exception:
        log(p.stderr[-2000:])
        raise ToolError('replay of family %s produced no summary (exit %s)' % (family, p.returncode))
    summary['wall'] = time.time() - t
    summary['profile'] = profile
    if summary.get('toolerr', 0) > 0:
        raise ToolError('replay tool errors in family %s: %s' % (family, summary.get('toolerr_msgs')))
    return summary


# ------------------------------------------------------------------------------------------------
# known findings


def load_known():
    """finding: property=<id> match=<text contained in the violation's message or record> <what fails>"""
    path = os.path.join(VERIF, 'known_findings.txt')
    out = []
    if os.path.exists(path):
        for line in open(path):
            line = line.strip()
            m = re.match(r'finding:\s+property=(\S+)\s+match=(\S+)\s+(.*)', line)
            if m:
                out.append(dict(prop=m.group(1), match=m.group(2), what=m.group(3)))
    return out


def known_match(prop, viol, known):
    blob = json.dumps(viol, sort_keys=True)
    for k in known:
        if k['prop'] == prop and k['match'] in blob:
            return k
    return None


# ------------------------------------------------------------------------------------------------


class Run:
    """Accumulates what one `bin/check <tier> <prop>` invocation covered."""

    def __init__(self, prop, tier, seed, level):
        self.prop, self.tier, self.seed, self.level = prop, tier, seed, level
        self.t0 = time.time()
        self.states = self.transitions = 0
        self.traces = 0
        self.evaluations = 0
        self.distinct_nontrivial = 0
        self.samples = []
        self.violations = []       # dicts
        self.jobs = []
        self.actions = {}
        self.exhaustive = True
        self.assumptions = []
        self.rule = ''
        os.makedirs(os.path.join(WORK, prop), exist_ok=True)

    def path(self, name):
        return os.path.join(WORK, self.prop, name)

    def add_tlc(self, name, res, must_succeed=True):
        self.states += res['distinct']
        self.transitions += res['states']
        for k, v in res['actions'].items():
            self.actions[k] = self.actions.get(k, 0) + v
        self.jobs.append(dict(job=name, kind='tlc', states_generated=res['states'], distinct=res['distinct'],
                              wall_s=round(res['wall'], 1), ok=res['ok'], error=res['error']))
        if must_succeed and not res['ok']:
            raise ToolError('TLC job %s failed: %s (see %s)' % (name, res['error'], res['outfile']))

    def add_replay(self, name, s, family):
        self.evaluations += s['total']
        self.traces += s['ok']
        self.distinct_nontrivial += s['distinct_nontrivial']
        for x in s['samples'][:3]:
            if len(self.samples) < 12:
                self.samples.append(dict(job=name, case=x))
        for a in s.get('spec_actions', []):
            self.actions[a] = self.actions.get(a, 0) + 1
        self.jobs.append(dict(job=name, kind='replay', family=family, profile=s.get('profile'), total=s['total'], ok=s['ok'],
                              skipped=s['skipped'], distinct=s['distinct'], distinct_nontrivial=s['distinct_nontrivial'],
                              violations=s['n_violations'], wall_s=round(s['wall'], 1)))
        for v in s['violations']:
            v = dict(v)
            v['family'] = family
            v['job'] = name
            v['profile'] = s.get('profile')
            self.violations.append(v)
        self.hidden_violations = getattr(self, 'hidden_violations', 0) + max(0, s['n_violations'] - len(s['violations']))

    def finish(self):
        known = load_known()
        new, seen_known = [], {}
        for v in self.violations:
            k = known_match(self.prop, v, known)
            if k:
                seen_known[k['match']] = k
            else:
                new.append(v)
        for k in seen_known.values():
            print('KNOWN-FINDING: property=%s %s' % (self.prop, k['what']))
        rdir = os.path.join(WORK, 'replays')
        os.makedirs(rdir, exist_ok=True)
        reported = 0
        for v in new[:10]:
            blob = json.dumps(v, sort_keys=True)
            h = hashlib.sha1(blob.encode()).hexdigest()[:12]
            path = os.path.join(rdir, '%s-%s.json' % (self.prop, h))
            with open(path, 'w') as f:
                json.dump(dict(property=self.prop, tier=self.tier, **v), f, indent=1)
            print('VIOLATION property=%s replay=%s' % (self.prop, path))
            log('   ', (v.get('msg') or '')[:300])
            reported += 1
        wall = time.time() - self.t0
        cov = dict(states=self.states, transitions=self.transitions, traces_validated_against_impl=self.traces,
                   samples=self.samples or [dict(note='no replayed case in this run')],
                   evaluations=self.evaluations, distinct_nontrivial=self.distinct_nontrivial, rule=self.rule,
                   exhaustive=self.exhaustive, jobs=self.jobs, spec_action_coverage=self.actions)
        ev = dict(property_id=self.prop, tier=self.tier, seed=self.seed, level=self.level, coverage=cov,
                  assumptions=self.assumptions, wall_s=round(wall, 1), violations=len(new),
                  known_findings=[k['what'] for k in seen_known.values()])
        os.makedirs(os.path.join(VERIF, 'evidence'), exist_ok=True)
        with open(os.path.join(VERIF, 'evidence', self.prop + '.json'), 'w') as f:
            json.dump(ev, f, indent=1)
        log('[%s %s] states=%d replayed=%d violations=%d known=%d wall=%.0fs' %
            (self.prop, self.tier, self.states, self.traces, len(new), len(seen_known), wall))
        return 1 if new else 0
