MC = 'model checking (TLC, exhaustive over a bounded input family) + replay of every TLC behaviour into the real code'
TEXT = {
 'C03': dict(level='The value rules are an executable TLA+ specification (Values.tla). TLC enumerates every operator on every ordered pair (triples for list operands, compound assignment, build/knock) of a universe covering every kind and boundary; each case is replayed on the Val API and through a program on the real interpreter and must give the model\'s value or error. Exhaustive within the universe; silent outside the exact number domain.',
             ref='DESIGN.md 5 C03', note='trusts TLC, the harness comparison code and the hand-written Values.tla as the statement of the language rules; numbers are exact only for n/64 with |n|<2^30 and listed big integers',
             technique='TLA+ value-algebra spec, TLC enumeration, spec-to-implementation replay'),
 'C06': dict(level='Array read/write/rock/roll semantics are TLA+ operators; TLC checks the array laws (read-after-write, extension with mysterious, FIFO, decay) on the model and enumerates arrays x keys x values; each case is replayed on the API and in a program while a shared copy is kept alive and must stay unchanged.',
             ref='DESIGN.md 5 C06', note='negative / fractional / NaN indices are outside the property and only checked for crash freedom; bounded universe',
             technique='TLA+ spec + TLC laws + replay with live copies'),
 'C07': dict(level='cut/join/cast/turn are TLA+ operators with round-trip and rounding laws checked by TLC; every operand x parameter combination of the universe (strings with delimiters at the ends / overlapping / multi-byte, numbers at the code-point and integer-width boundaries, radices in and out of range, wrong kinds) is replayed in place and with `into`.',
             ref='DESIGN.md 5 C07', note='bounded universe; exponent-form numerals and numbers outside the exact domain are undetermined in the model',
             technique='TLA+ spec + TLC laws + replay'),
 'C14': dict(level='The laws are TLA+ formulas (Laws.tla). TLC proves them for every ordered pair of the universe on the model, and the model\'s comparison / logic / inc-dec tables are bound to the implementation by replaying every case, so the laws hold on the implementation\'s tables over the same universe.',
             ref='DESIGN.md 5 C14', note='universe of 38 values (56 in the thorough tier); laws are vacuous where the model is undetermined (inexact numbers)',
             technique='TLA+ laws checked by TLC + table conformance replay'),
 'C12': dict(level='The lexer is a character-level TLA+ state machine (Lexer.tla, one action per match_loop arm). TLC checks, in every state of every text up to the bound over six alphabets (ASCII classes, multi-line literals with suffixes, one member of every non-ASCII class, numerals, blanks/line ends, short keywords), that tokens are ordered non-overlapping slices with ignorable gaps and true positions computed from the text alone; every text is replayed and the real token stream must equal the model\'s; recorded streams of long random texts are validated by TLC against LexTrace.tla. A self-test config re-creates the repaired stale-suffix defect and must be rejected.',
             ref='DESIGN.md 5 C12', note='bounded text length (3-4 exhaustive, 5 thorough; 60-150 sampled); one representative per Unicode class',
             technique='TLA+ lexer state machine, TLC invariants, replay + trace validation'),
 'C01': dict(level='Totality of the front end. The lexer model proves termination (variant), progress and in-bounds slicing for every enumerated text; every text TLC enumerates (character alphabets up to the bound, token soup over all parser dispatch classes) or samples by simulation is parsed by the real parser in debug and release builds inside supervised worker processes, so a panic, abort, stack overflow or hang is observed and reported; every error is rendered.',
             ref='DESIGN.md 5 C01', note='bounded text length / fragment count; nesting deeper than the bound is only sampled; silent release-mode UB is not observable',
             technique='TLA+ lexer model + TLC enumeration/simulation + supervised replay in both build profiles'),
}
NOT_YET = {}
