"""Per-property job lists.  Each function takes a vcheck.Run and does the work of that property's check."""
import os
from vcheck import *


def tlc_replay(run, name, module, cfg, family, profiles=('debug',), workers=None, simulate=None, timeout=1800,
               coverage=False, timeout_ms=10000, extra=None, heap='8g', xss=None):
    out = run.path(name + '.out')
    res = run_tlc(module, cfg, out, workers=workers, simulate=simulate, timeout=timeout, coverage=coverage,
                  seed=run.seed if simulate else None, heap=heap, xss=xss)
    run.add_tlc(name, res)
    if simulate:
        run.exhaustive = False
    for prof in profiles:
        s = run_replay(family, out, profile=prof, timeout_ms=timeout_ms, extra=extra)
        run.add_replay(name + ':' + prof, s, family)
    try:
        os.remove(out)
    except OSError:
        pass


def table(run, kinds_cfg):
    cfg = 'MC_Table_%s_%s.cfg' % (kinds_cfg, run.tier)
    tlc_replay(run, 'table-' + kinds_cfg, 'MC_Table.tla', cfg, 'table')


def C03(run):
    run.rule = ('TLC enumerates every operator x every ordered pair (triple for list operands) of the value universe of '
                'MC_Table.tla; each case is executed on the Val API and through a generated program on the real interpreter; '
                'non-trivial = the model determines the result (not Unk)')
    run.assumptions += ['numbers outside the fixed-point domain n/64, |n|<2^30 (plus the symbolic big integers) are not compared',
                        'AST built directly (no parser) for program-level cases']
    table(run, 'C03')


def C14(run):
    run.rule = ('laws of Laws.tla evaluated by TLC on every ordered pair of the universe (model tables), and every comparison / '
                'logic / inc-dec case replayed on the implementation; non-trivial = result determined')
    table(run, 'C14')


def C06(run):
    run.rule = ('index / store / rock / roll cases over arrays x keys x values, with a live shared copy that must stay unchanged; '
                'array laws checked by TLC on the model')
    table(run, 'C06')


def C07(run):
    run.rule = 'cut / join / cast / turn over strings, delimiters, numbers, radices and wrong kinds, in place and with `into`'
    table(run, 'C07')


PROPS = {
    'C03': (C03, 'model_checking'),
    'C06': (C06, 'model_checking'),
    'C07': (C07, 'model_checking'),
    'C14': (C14, 'model_checking'),
}
