"""Per-property job lists.  Each function takes a vcheck.Run and does the work of that property's check."""
import os, json, re
from vcheck import *


def tlc_replay(run, name, module, cfg, family, profiles=('debug',), workers=None, simulate=None, timeout=1800,
               coverage=False, timeout_ms=10000, extra=None, heap='8g', xss=None, env=None):
    out = run.path(name + '.out')
    res = run_tlc(module, cfg, out, workers=workers, simulate=simulate, timeout=timeout, coverage=coverage,
                  seed=run.seed if simulate else None, heap=heap, xss=xss)
    run.add_tlc(name, res)
    if simulate:
        run.exhaustive = False
    for prof in profiles:
        s = run_replay(family, out, profile=prof, timeout_ms=timeout_ms, extra=extra, env=getattr(run, 'replay_env', None) if env is None else env)
        run.add_replay(name + ':' + prof, s, family)
    try:
        os.remove(out)
    except OSError:
        pass


def trace_violation(job, module, cfg, msg, rejected, trace):
    """A recording the trace validator rejected, as a self-contained violation record: the rejected line travels with it, so that
    `bin/check --replay` can put it before the validator again."""
    line = None
    m = re.match(r'<<"REJECTED", (\d+)', rejected or '')
    if m:
        try:
            line = open(trace).read().splitlines()[int(m.group(1)) - 1]
        except Exception:
            line = None
    if line is not None and len(line) > 4000000:
        line = None
    return dict(family=None, job=job, msg=msg, rec=None, rejected=rejected, trace=trace, trace_line=line, module=module, cfg=cfg)


def grammar(run, fam, family='syntax', profiles=('debug',), parts=None):
    """parts (family e2e): 'run' compares the run with the model's, 'lint' the lint report, None both"""
    env = None
    if parts:
        env = dict(getattr(run, 'replay_env', None) or {})
        env['VH_E2E_PARTS'] = parts
    tlc_replay(run, 'grammar-' + fam, 'MC_Grammar.tla', 'MC_Grammar_%s_%s.cfg' % (fam, run.tier), family, profiles=profiles, xss='256m', env=env)


def deep(run, family='e2e', profiles=('debug',), parts=None):
    """depth and length boundaries (MC_Deep.tla): d-fold nested operators / subscripts / calls / blocks / definitions, call chains d deep
    at run time, n statements / blocks / list operands / arguments / poetic words / characters"""
    env = None
    if parts:
        env = dict(getattr(run, 'replay_env', None) or {})
        env['VH_E2E_PARTS'] = parts
    tlc_replay(run, 'deep', 'MC_Deep.tla', 'MC_Deep_%s.cfg' % run.tier, family, profiles=profiles, xss='512m', workers=6, timeout_ms=60000, env=env)


def parser_soup(run, cfgs, profiles=('debug',), family='verdict', env=None):
    """token soup lexed and parsed by the recogniser MODEL (Lexer.tla + Parser.tla); the real parser must give the same verdict:
    accepted with the same tree, or rejected at the same line."""
    for c in cfgs:
        tlc_replay(run, 'parser-' + c, 'MC_Parser.tla', 'MC_Parser_%s.cfg' % c, family, profiles=profiles, xss='256m', timeout_ms=5000, env=env,
                   timeout=5400)


def table(run, kinds_cfg):
    cfg = 'MC_Table_%s_%s.cfg' % (kinds_cfg, run.tier)
    tlc_replay(run, 'table-' + kinds_cfg, 'MC_Table.tla', cfg, 'table')


def C03(run):
    run.rule = ('TLC enumerates every operator x every ordered pair (triple for list operands) of the value universe of '
                'MC_Table.tla; each case is executed on the Val API and through a generated program on the real interpreter; '
                'non-trivial = the model determines the result (not Unk)')
    run.assumptions += ['numbers outside the fixed-point domain n/64, |n|<2^30 (plus the symbolic big integers) are not compared',
                        'AST built directly (no parser) for program-level cases']
    table(run, 'C03')
    # statement-level combinations (compound assignment with one, two and three operands on every operand class, mutations with and
    # without parameter, increments of every class): family ILL with the full outcome comparison
    interp(run, 'ILL')
    run.rule += TRACE_NOTE.replace('; recorded', '; expressions nested in every statement position: recorded')
    interptrace(run)


def C14(run):
    import subprocess
    run.rule = ('the laws of Laws.tla are checked by TLC (a) on the model\'s tables for every ordered pair of the universe and (b) on the '
                'IMPLEMENTATION\'s own tables: for every pair the harness records the real results of equality, ordering and logic in both '
                'orders, truthiness, not, build-then-knock for k = 1..3 and compound vs expanded assignment for + - * /, and TLC evaluates the '
                'same law formulas on the recorded table (TableTrace.tla).  The laws are the oracle, not the model\'s cells (those belong to '
                'C03); non-trivial = distinct pairs')
    # compound assignment as TEXT: `let x be op e` (operator as a word or a symbol) against `let x be x op e`, through the real front end
    run.rule += ('; compound assignment as text: `let x be op e` and `let x be x op e` for + - * / (worded and symbolic spellings, list operands) '
                 'rendered by Grammar.tla, parsed and run by the real front end and interpreter; the model (on which TLC checks that both '
                 'forms run the same) is the reference for both')
    grammar(run, 'claw', family='e2e', parts='run')
    out = run.path('laws.out')
    res = run_tlc('MC_Table.tla', 'MC_Table_C14_%s.cfg' % run.tier, out)
    run.add_tlc('laws-on-model', res)
    trace = run.path('law.ndjson')
    binp = build_harness('debug')
    p = subprocess.run([binp, 'record', 'lawtable', '--in', out, '--out', trace], stdout=subprocess.PIPE, stderr=subprocess.PIPE, text=True)
    if p.returncode != 0:
        raise ToolError('lawtable recorder failed: ' + p.stderr[-800:])
    os.remove(out)
    tout = run.path('tabletrace.out')
    res = run_tlc('TableTrace.tla', 'TableTrace.cfg', tout, workers=1, extra_env={'TRACE': trace}, depth_first=True, xss='64m', heap='2g')
    lines = open(trace).read().splitlines()
    run.jobs.append(dict(job='tabletrace', kind='trace-validation', module='TableTrace.tla', events=len(lines), accepted=res['ok'],
                         states=res['distinct'], wall_s=round(res['wall'], 1), error=res['error']))
    run.states += res['distinct']
    run.transitions += res['states']
    if res['ok']:
        run.traces += len(lines)
        run.evaluations += len(lines)
        run.distinct_nontrivial += len(set(lines))
        for l in lines[:2]:
            run.samples.append(dict(job='tabletrace', trace_line=json.loads(l)))
    else:
        rejected = None
        for l in open(tout, errors='replace'):
            if l.startswith('<<"REJECTED"'):
                rejected = l.strip()[:4000]
        if rejected is None:
            raise ToolError('TableTrace failed without a rejected event: %s (see %s)' % (res['error'], tout))
        run.violations.append(trace_violation('tabletrace', 'TableTrace.tla', 'TableTrace.cfg',
                                              'a law of Laws.tla fails on the implementation\'s recorded table', rejected, trace))


def C06(run):
    run.rule = ('index / store / rock / roll cases over arrays x keys x values, with a live shared copy that must stay unchanged; '
                'array laws checked by TLC on the model')
    table(run, 'C06')


def C07(run):
    run.rule = 'cut / join / cast / turn over strings, delimiters, numbers, radices and wrong kinds, in place and with `into`'
    table(run, 'C07')


def record_validate(run, name, family, module, cfg, n, maxlen, xss='64m', timeout=1200, parts=4):
    """impl -> spec: record real behaviour on seeded random inputs, let TLC check the trace against the specification."""
    import subprocess, concurrent.futures
    binp = build_harness('debug')
    per = max(1, n // parts)

    def one(k):
        trace = run.path('%s-%d.ndjson' % (name, k))
        p = subprocess.run([binp, 'record', family, '--seed', str(run.seed * 1000 + k), '--n', str(per), '--maxlen', str(maxlen),
                            '--out', trace], stdout=subprocess.PIPE, stderr=subprocess.PIPE, text=True)
        if p.returncode != 0:
            raise ToolError('recorder for %s failed: %s' % (family, p.stderr[-500:]))
        out = run.path('%s-%d.out' % (name, k))
        res = run_tlc(module, cfg, out, workers=1, timeout=timeout, extra_env={'TRACE': trace}, depth_first=True, xss=xss, heap='2g')
        return k, trace, out, res

    with concurrent.futures.ThreadPoolExecutor(max_workers=parts) as ex:
        results = list(ex.map(one, range(parts)))
    run.exhaustive = False
    for k, trace, out, res in results:
        lines = [l for l in open(trace)]
        accepted = res['ok']
        run.jobs.append(dict(job='%s-%d' % (name, k), kind='trace-validation', module=module, events=len(lines),
                             accepted=accepted, states=res['distinct'], wall_s=round(res['wall'], 1), error=res['error']))
        run.states += res['distinct']
        run.transitions += res['states']
        if accepted:
            run.traces += len(lines)
            run.evaluations += len(lines)
            run.distinct_nontrivial += len(set(lines))
            if lines and len(run.samples) < 12:
                run.samples.append(dict(job=name, trace_line=json.loads(lines[0])))
        else:
            rejected = None
            for l in open(out, errors='replace'):
                if l.startswith('<<"REJECTED"'):
                    rejected = l.strip()[:3000]
            if rejected is None:
                raise ToolError('trace validation %s failed without a rejected event: %s (see %s)' % (name, res['error'], out))
            run.violations.append(trace_violation(name, module, cfg, 'recorded implementation trace rejected by %s' % module, rejected, trace))
        if accepted:
            for f in (trace, out):
                try:
                    os.remove(f)
                except OSError:
                    pass


LEX_QUICK = ['core3', 'multi4', 'uni4', 'num4', 'ws4', 'kw4', 'qnl4', 'cnl3', 'souplong4', 'apos5']
LEX_THOROUGH = ['core4', 'multi5', 'uni5', 'num5', 'ws5', 'kw5', 'qnl4', 'cnl4', 'souplong5', 'apos6']


def C12(run):
    run.rule = ('every text up to the length bound over each alphabet of MC_Lex.tla is lexed by the model one match_loop arm per '
                'step with the C12 invariants (slices, ignorable gaps, true start/end positions) evaluated from the text alone; '
                'each text is replayed into the real lexer and the token streams must be identical; recorded token streams of '
                'random long texts are validated by TLC against LexTrace.tla; non-trivial = at least one token')
    run.assumptions += ['non-ASCII characters are represented by one member per class (see Chars.tla)']
    import json as _j
    res = run_tlc('MC_Lex.tla', 'MC_Lex_arms.cfg', run.path('arms.out'), coverage=True)
    run.add_tlc('lex-arms', res)
    st = run_tlc('MC_Lex.tla', 'MC_Lex_selftest_stale.cfg', run.path('selftest.out'))
    if st['ok'] or 'WellFormed' not in (st['error'] or ''):
        raise ToolError('specification self-test failed: the stale-suffix defect is not detected by WellFormed')
    run.jobs.append(dict(job='selftest-stale-suffix', kind='tlc-selftest', expected='Invariant WellFormed is violated', observed=st['error']))
    for c in (LEX_QUICK if run.tier == 'quick' else LEX_THOROUGH):
        tlc_replay(run, 'lex-' + c, 'MC_Lex.tla', 'MC_Lex_%s.cfg' % c, 'lex', extra=['--max-viol', '200000'])
    # Equality with the model's token stream is only the fast path.  A stream that differs from the model's is judged by the
    # property itself: TLC validates it against LexTrace.tla (slices, gaps, true positions); only a rejected stream is a violation.
    differing = [v for v in run.violations if v.get('msg') == 'token stream differs from the model' and v.get('obs')]
    if differing:
        trace = run.path('differing.ndjson')
        with open(trace, 'w') as f:
            for v in differing:
                f.write(json.dumps(dict(src=v['rec']['src'], toks=v['obs']['tokens'])) + '\n')
        out = run.path('differing.out')
        res = run_tlc('LexTrace.tla', 'LexTrace.cfg', out, workers=1, extra_env={'TRACE': trace}, depth_first=True, xss='64m', heap='2g')
        accepted_upto = len(differing) if res['ok'] else 0
        if not res['ok']:
            for l in open(out, errors='replace'):
                m = re.match(r'<<"REJECTED", (\d+)', l)
                if m:
                    accepted_upto = int(m.group(1)) - 1
        # everything before the first rejected line satisfied the property; keep the rest as violations
        keep = differing[accepted_upto:]
        run.violations = [v for v in run.violations if v not in differing] + keep
        run.jobs.append(dict(job='lex-differing-judged-by-property', kind='trace-validation', module='LexTrace.tla', events=len(differing),
                             accepted_by_property=accepted_upto, still_violations=len(keep)))
    if run.tier == 'quick':
        record_validate(run, 'lextrace', 'lex', 'LexTrace.tla', 'LexTrace.cfg', n=160, maxlen=60)
    else:
        record_validate(run, 'lextrace', 'lex', 'LexTrace.tla', 'LexTrace.cfg', n=2000, maxlen=150, parts=12, timeout=3000)


def C01(run):
    run.rule = ('texts enumerated by TLC from the lexer model (all texts up to the bound over character alphabets; all sequences of '
                'token-class fragments = "token soup") plus TLC -simulate random long texts; each is parsed by the real parser in the '
                'debug and the release profile in a supervised worker process (panic, abort and hang are observations) and an error '
                'must render; the model itself checks Terminates / Progress / in-bounds slices; the recogniser model Parser.tla is total '
                '(ParserTotal: a verdict for every soup text, top-level loop bounded); non-trivial = non-blank text')
    run.assumptions += ['release-mode undefined behaviour without a symptom is not observable; the model checks the slice preconditions instead']
    quick = run.tier == 'quick'
    for c in (['core3', 'uni3', 'kw4', 'ws4', 'soupfull2', 'souptiny3', 'souplong4'] if quick else ['core4', 'uni4', 'kw5', 'multi5', 'soupfull3', 'soupcore4', 'souptiny4', 'souplong5']):
        tlc_replay(run, 'total-' + c, 'MC_Lex.tla', 'MC_Lex_%s.cfg' % c, 'total', profiles=('debug', 'release'), timeout_ms=5000)
    # totality only: what the verdict is belongs to C02 / C13
    parser_soup(run, ['full2', 'tiny3', 'lines3', 'else4'] if quick else ['full3', 'core4', 'tiny4', 'stmt5', 'lines4', 'else5'], profiles=('debug', 'release'), family='total')
    n = 300 if quick else 5000
    tlc_replay(run, 'total-sim', 'MC_Lex.tla', 'MC_Lex_sim.cfg', 'total', profiles=('debug', 'release'),
               simulate='num=%d' % n, workers=8, timeout_ms=5000)
    tlc_replay(run, 'total-simsoup', 'MC_Lex.tla', 'MC_Lex_simsoup.cfg', 'total', profiles=('debug', 'release'),
               simulate='num=%d' % n, workers=8, timeout_ms=5000)
    # "nesting depth within a few hundred levels": the depth / length boundary family as text
    deep(run, family='total', profiles=('debug', 'release'))
    # the tool's own way into the parser (reading the file, anything it does to the text first): a handful of odd little files through
    # `rrss parse|lint|exec`; a crash of the tool shows as an exit status or an output CliTrace.tla does not accept
    run.rule += '; 30 odd little files (empty, a lone `#!`, lone quotes and parentheses, bare CR ...) through the built binary'
    clitrace(run, (), raw=RAW_TEXTS)
    # long but FLAT texts (MC_Flat.tla): a unit repeated some 10^5 times between tokens, around statements, inside comments, strings,
    # poetic literals, identifiers and numerals, wherever the recogniser model says that repetition adds no nesting
    run.rule += ('; long flat texts: every one-character (thorough: also two-character) unit repeated to 400 000 (100 000) characters in each '
                 'context where the recogniser model finds the repetition flat (same tree for 2 and 3 repetitions)')
    tlc_replay(run, 'flat', 'MC_Flat.tla', 'MC_Flat_%s.cfg' % run.tier, 'flat', profiles=('debug', 'release'), xss='256m',
               timeout_ms=120000 if quick else 300000)


def interp(run, fam, family='exec', profiles=('debug',)):
    tlc_replay(run, 'interp-' + fam, 'MC_Interp.tla', 'MC_Interp_%s_%s.cfg' % (fam, run.tier), family, profiles=profiles, timeout_ms=20000)


INTERP_NOTE = ('the interpreter is a small-step abstract machine in TLA+ (Interp.tla); TLC runs every program of the bounded family, '
               'checks the machine invariants in every state, and prints each complete run; the real interpreter must reproduce the bytes '
               'written, the read calls, the outcome and the full environment snapshot (all scopes, pronoun referent, control-flow state) '
               'after every completed statement (hook rrss_verif); non-trivial = more than one statement event')


def interptrace(run, cfg='InterpTrace.cfg'):
    """impl -> spec: seeded random programs (20-120 statements, depth 4, functions, arrays, I/O) run on the real interpreter;
    TLC steps the abstract machine through each recorded run (InterpTrace.tla), snapshot by snapshot."""
    if run.tier == 'quick':
        record_validate(run, 'interptrace', 'interp', 'InterpTrace.tla', cfg, n=600, maxlen=100, xss='256m', parts=6)
    else:
        record_validate(run, 'interptrace', 'interp', 'InterpTrace.tla', cfg, n=9000, maxlen=160, xss='256m', parts=12, timeout=5000)
    corpustrace(run, cfg)


def corpustrace(run, cfg='InterpTrace.cfg'):
    """impl -> spec on the program corpus (corpus/*.rock: the Rockstar programs embedded in the repository's own integration tests, fixed
    copies): each is parsed by the real parser and run on the real interpreter with the snapshot hook; TLC steps the abstract machine
    through the recorded run (InterpTrace.tla).  The repository's tests compare the printed output only; here every intermediate
    environment (all scopes, pronoun referent, control-flow state) after every completed statement must be the machine's."""
    import subprocess
    binp = build_harness('debug')
    trace = run.path('corpus.ndjson')
    p = subprocess.run([binp, 'record', 'corpus', '--dir', os.path.join(VERIF, 'corpus'), '--out', trace], stdout=subprocess.PIPE,
                       stderr=subprocess.PIPE, text=True)
    if p.returncode != 0:
        raise ToolError('corpus recorder failed: ' + p.stderr[-800:])
    skipped = [l[len('skipped '):] for l in p.stderr.splitlines() if l.startswith('skipped ')]
    lines = open(trace).read().splitlines()
    if run.tier == 'quick':      # the three fizzbuzz programs are 5 000 statement events each: one of them in the quick tier
        lines = [l for l in lines if '"file":"fizzbuzz_four_ways-02"' not in l and '"file":"fizzbuzz_four_ways-03"' not in l]
        with open(trace, 'w') as f:
            f.write('\n'.join(lines) + '\n')
    out = run.path('corpus.out')
    res = run_tlc('InterpTrace.tla', cfg, out, workers=1, timeout=3000, extra_env={'TRACE': trace}, depth_first=True, xss='256m', heap='4g')
    fins = {}
    for l in open(out, errors='replace'):
        m = re.match(r'<<"FIN", \d+, "(\w+)"', l)
        if m:
            fins[m.group(1)] = fins.get(m.group(1), 0) + 1
    run.exhaustive = False
    run.jobs.append(dict(job='corpustrace', kind='trace-validation', module='InterpTrace.tla', events=len(lines), accepted=res['ok'],
                         states=res['distinct'], wall_s=round(res['wall'], 1), error=res['error'], machine_end_states=fins,
                         not_recorded=skipped))
    run.states += res['distinct']
    run.transitions += res['states']
    if res['ok']:
        run.traces += len(lines)
        run.evaluations += len(lines)
        run.distinct_nontrivial += fins.get('ok', 0) + fins.get('err', 0)
        for f in (trace, out):
            try:
                os.remove(f)
            except OSError:
                pass
    else:
        rejected = None
        for l in open(out, errors='replace'):
            if l.startswith('<<"REJECTED"'):
                rejected = l.strip()[:3000]
        if rejected is None:
            raise ToolError('corpus trace validation failed without a rejected event: %s (see %s)' % (res['error'], out))
        run.violations.append(trace_violation('corpustrace', 'InterpTrace.tla', cfg, 'recorded run of a corpus program rejected by InterpTrace.tla',
                                              rejected, trace))


CORPUS_NOTE = ('; the Rockstar programs of the repository\'s own integration tests (corpus/, fixed copies) are run on the real front end and '
               'interpreter and every recorded run is validated by TLC against the machine, snapshot by snapshot')


TRACE_NOTE = ('; recorded runs of seeded random programs far beyond the enumerated bounds are validated by TLC against the same machine '
              '(InterpTrace.tla: one machine action per TLC state, every emitted snapshot must be the recorded one)' + CORPUS_NOTE)


def C04(run):
    run.rule = ('family CF (nested if/else, while, until, break, continue, conditions of every kind, top-level exits); family cf-as-text '
                '(else branches holding nested if/else and further statements, else-if chains inside loops, returns out of nested loops) rendered '
                'by Grammar.tla under 10 tapes and parsed by the real front end; family IO for errors raised by the streams; '
                + INTERP_NOTE + TRACE_NOTE)
    interp(run, 'CF')
    # which statements belong to which branch / loop is decided by the parser: block-structure programs as TEXT through the real front end
    grammar(run, 'cf', family='e2e', parts='run')
    # "an error stops execution at that statement, with everything printed before it preserved" - also for the user of the tool: the
    # programs of the CLI corpus that end in a run-time error, through the built binary (CliTrace.tla)
    run.rule += '; programs that print and then fail are also run through the built binary (the output before the error must arrive)'
    clitrace(run, (('cli', 1000),), only=lambda l: '\\"st\\":\\"err\\"' in l)
    # "from any depth of nested ifs": the depth boundary family (40 / 150 nested ifs, else-if chains, loops, definitions) with the full
    # comparison of the run: a deeply nested program is a program like any other
    deep(run, parts='run')
    # "an error stops execution at that statement": also an output or input fault (family IO, faults of every kind at every position)
    interp(run, 'IO')
    interptrace(run)


def C05(run):
    run.rule = 'family FN (18 function bodies x 14 call sites + two-parameter, recursive, nested and clashing definitions); ' + INTERP_NOTE
    run.rule += TRACE_NOTE
    interp(run, 'FN')
    interp(run, 'CF') if run.tier == 'thorough' else None
    # which arguments belong to which call is decided by the parser: the same programs as text through the real front end
    run.rule += '; the FN / PR programs also as text (family e2e, the run compared)'
    grammar(run, 'e2e', family='e2e', parts='run')
    interptrace(run)


RAW_TEXTS = ['', '#!', '#!/usr/bin/env rrss', '#!\nsay 1\n', '\r', '\r\n', '(', '"', "'", "'" * 4, 'ab1', '.', '-', ',', 'say', 'say "a\r\nb"',
             ' \t ', '\n\n\n', 'else', "x's", "'s", '_', '1.2.3', '.5.5', 'say 1 (', '%%', '#', '#!#!', 'x is', 'x says']


def clitrace(run, fams, only=None, det_only=False, raw=None):
    """Record runs of the built rrss binary on TLC-generated programs and validate every observation against CliTrace.tla.
    det_only (C10): every command is run four times and only a difference between the runs is recorded (and rejected)."""
    import subprocess
    cases = run.path('cli_cases.txt')
    with open(cases, 'w') as out:
        for fam, limit in fams:
            o = run.path('g_%s.out' % fam)
            res = run_tlc('MC_Grammar.tla', 'MC_Grammar_%s_%s.cfg' % (fam, 'quick'), o, xss='256m')
            run.add_tlc('cli-corpus-' + fam, res)
            n = 0
            for l in open(o, errors='replace'):
                if not l.startswith('<<"R", ') or n >= limit or (only is not None and not only(l)):
                    continue
                try:
                    text = json.loads(json.loads(l.strip()[len('<<"R", '):-2]))['text']
                except Exception:
                    continue
                if not any(ch in text for ch in '~^|%$@`#\\'):      # ASCII programs only (TLC prints the place-holders, not the characters)
                    out.write(l)
                    n += 1
            os.remove(o)
        # odd little files written down here (not rendered by the grammar): what the tool does with them is what the library does
        for t in (raw or []):
            out.write(json.dumps(dict(fam='cli', raw=True, text=t, inp=[], out='', st='unspec')) + '\n')
    rrss = build_rrss_bin()
    binp = build_harness('debug')
    trace = run.path('cli.ndjson')
    env = dict(os.environ)
    if det_only:
        env['VH_CLI_DET_ONLY'] = '1'
    p = subprocess.run([binp, 'record', 'cli', '--in', cases, '--bin', rrss, '--dir', run.path(''), '--out', trace],
                       stdout=subprocess.PIPE, stderr=subprocess.PIPE, text=True, env=env)
    if p.returncode != 0:
        raise ToolError('cli recorder failed: ' + p.stderr[-800:])
    out = run.path('clitrace.out')
    res = run_tlc('CliTrace.tla', 'CliTrace.cfg', out, workers=1, extra_env={'TRACE': trace}, depth_first=True, xss='64m', heap='2g')
    lines = open(trace).read().splitlines()
    run.exhaustive = False
    run.jobs.append(dict(job='clitrace', kind='trace-validation', module='CliTrace.tla', events=len(lines), accepted=res['ok'],
                         states=res['distinct'], wall_s=round(res['wall'], 1), error=res['error']))
    run.states += res['distinct']
    run.transitions += res['states']
    if res['ok']:
        run.traces += len(lines)
        run.evaluations += len(lines)
        run.distinct_nontrivial += len(set(lines))
        for l in lines[:2]:
            run.samples.append(dict(job='clitrace', trace_line=json.loads(l)))
    else:
        rejected = None
        for l in open(out, errors='replace'):
            if l.startswith('<<"REJECTED"'):
                rejected = l.strip()[:4000]
        if rejected is None:
            raise ToolError('CliTrace failed without a rejected event: %s (see %s)' % (res['error'], out))
        run.violations.append(trace_violation('clitrace', 'CliTrace.tla', 'CliTrace.cfg', 'observed run of the rrss binary rejected by CliTrace.tla',
                                              rejected, trace))


def C08(run):
    run.rule = ('family IO: say/listen programs x input texts x every writer byte budget x every failing read call; the instrumented '
                'reader hands out the input in chunks (a line in pieces, two lines at once) and the writer accepts a byte budget; '
                + INTERP_NOTE + '; and the built binary is observed on say/listen programs (prompt visible before input is supplied, closed '
                'standard output, invalid UTF-8 input), each observation validated against CliTrace.tla')
    run.assumptions += ['input is valid UTF-8 with LF line ends; byte budgets are applied to ASCII output only']
    interp(run, 'IO')
    # the same protocol at the process boundary (src/cli/exec.rs): a prompt written by `say` is on standard output before the
    # following `listen` gets its input; a standard output that cannot be written to is a reported runtime error; undecodable input
    clitrace(run, (('cli', 1000),))
    run.rule += CORPUS_NOTE
    corpustrace(run)
    # "the canonical text of its value": say on every value of the universe (negative zero, NaN, infinities, big and tiny numbers,
    # arrays as their length, nested arrays, strings with line breaks), through the Val API and through a program
    run.rule += '; `say` on every value of the universe of MC_Table.tla prints the text Values!ToOutStr defines'
    table(run, 'C08')


def C09(run):
    # C09 is about crashes only: every replay of this check runs in crash-only mode (a different value or outcome is the business
    # of C03-C08; a panic, abort, debug assertion or hang is a violation here)
    run.replay_env = {'VH_CRASH_ONLY': '1'}
    run.assumptions += ['call chains deeper than a few hundred activations are outside "modest resource bounds" (about 3 000 overflow the debug build\'s 8 MB stack)']
    run.rule = ('family ILL (44 statement forms x 12 operand variables x 12 parameter variables incl. function/variable name clashes, NaN, '
                'negative and huge numbers) plus every other interpreter family, in debug and release builds, in supervised worker processes; '
                + INTERP_NOTE)
    for fam in ['ILL', 'FN', 'AR', 'MU', 'DICT'] + (['CF', 'IO'] if run.tier == 'thorough' else []):
        interp(run, fam, profiles=('debug', 'release'))
    # parser-accepted TEXTS: degenerate and long poetic literals, every statement kind in every spelling, value-level corner cases
    grammar(run, 'poetic', family='poeticrun', profiles=('debug', 'release'))
    grammar(run, 'e2e', family='e2e', profiles=('debug', 'release'))
    deep(run, profiles=('debug', 'release'))
    tlc_replay(run, 'table-C06', 'MC_Table.tla', 'MC_Table_C06_%s.cfg' % run.tier, 'table', profiles=('debug', 'release'))
    tlc_replay(run, 'table-C07', 'MC_Table.tla', 'MC_Table_C07_%s.cfg' % run.tier, 'table', profiles=('debug', 'release'))
    interptrace(run, cfg='InterpTraceCrash.cfg')


def C10(run):
    run.rule = ('family DICT (arrays filled through 3-4 distinct non-numeric keys in every order, then joined / printed / compared / named in '
                'an error) and family ILL: each run is compared with the model and repeated 7 times in one process (fresh hasher state per map) '
                'and once in a second process; output bytes, outcome and the full error text must be identical')
    run.rule += ('; text level: the {:#?} dump / parse error and the lint report of every rendering of the block family and of every faulty '
                 'text are compared across 4 in-process repetitions and a second process')
    run.assumptions += ['hash seeds are sampled (8 runs per program), not enumerated']
    interp(run, 'DICT', family='determ')
    interp(run, 'ILL', family='determ')
    # "nothing observable depends on time": the same input bytes delivered in different pieces (a line arriving in two reads, two
    # lines in one) give the same run.  TLC checks ChunkIndependent on the machine; the real interpreter gets every chunking.
    run.rule += ('; family IO: the same input bytes cut into different chunks (what successive read calls return) must give the same run '
                 '(invariant ChunkIndependent on the machine, every chunking replayed on the real interpreter)')
    interp(run, 'IO')
    # parsing and linting: syntax-tree dumps, parse errors and lint reports of rendered programs and of faulty texts
    grammar(run, 'block', family='dettext')
    grammar(run, 'fault', family='dettext')
    # lint reports with several diagnostics on one line (both passes reporting the same statement): order and content the same every time
    grammar(run, 'lint', family='dettext')
    # "in different processes": the built binary, every command four times on the programs of the CLI corpus (only a difference between
    # the four runs is recorded; what the tool prints is the business of C20)
    run.rule += '; the built binary runs every command four times on the CLI corpus: identical stdout, stderr and exit status'
    clitrace(run, (('cli', 1000),), det_only=True)
    if run.tier == 'thorough':
        grammar(run, 'stmt', family='dettext')


def C15(run):
    run.rule = ('family RN: every FN/MU (thorough: also CF) program under 4-8 injective renamings of its 30 abstract names into simple, common and '
                'proper names (accented letters included), every mention in another letter case; output, outcome and every statement event must '
                'equal the unrenamed model run; Names.tla invariants (case-folded key equal across spellings, distinct for distinct names) by TLC')
    run.rule += ('; family e2e: the expressible FN/MU/CF/IO programs rendered by Grammar.tla under pseudo-random tapes (keyword aliases and case, '
                 'name kind and per-mention case) must run exactly like the model (events incl. physical statement lines, lint report)')
    interp(run, 'RN', family='rename')
    # text level: keywords and every name mention in pseudo-randomly varied letter case, names of all three kinds
    grammar(run, 'e2e', family='e2e', parts='run')


_C06_table, _C07_table = C06, C07


def C06(run):
    _C06_table(run)
    run.rule += '; family AR: all sequences of 3 (thorough: 4) array operations over variables copied from one another; ' + INTERP_NOTE
    interp(run, 'AR')
    run.rule += CORPUS_NOTE
    corpustrace(run)


def C07(run):
    _C07_table(run)
    run.rule += '; family MU: mutations on variables, subscripts and pronouns with and without destination through the interpreter'
    interp(run, 'MU')
    run.rule += CORPUS_NOTE
    corpustrace(run)


def corpus_parse(run, family='verdict', profiles=('debug',), env=None):
    """The recogniser model (Lexer.tla + Parser.tla) on the TEXTS of the program corpus (quick: the texts of at most 400 characters, the
    model is slow on long ones): its verdict - the tree, or the error line - must be the real parser's."""
    import glob
    texts = run.path('corpus-texts.ndjson')
    with open(texts, 'w') as f:
        for path in sorted(glob.glob(os.path.join(VERIF, 'corpus', '*.rock'))):
            t = open(path, encoding='utf-8').read()
            if all(ord(ch) < 128 for ch in t):
                f.write(json.dumps(dict(file=os.path.basename(path)[:-5], text=t)) + '\n')
    out = run.path('parser-corpus.out')
    res = run_tlc('MC_ParserCorpus.tla', 'MC_ParserCorpus_%s.cfg' % run.tier, out, extra_env={'CORPUS': texts}, xss='512m', timeout=5400)
    run.add_tlc('parser-corpus', res)
    for prof in profiles:
        s = run_replay(family, out, profile=prof, timeout_ms=20000, env=getattr(run, 'replay_env', None) if env is None else env)
        run.add_replay('parser-corpus:' + prof, s, family)
    for f in (out, texts):
        try:
            os.remove(f)
        except OSError:
            pass


def corpus_analysis(run, kind, family, env=None):
    """Lint.tla / Visitor.tla applied to the program corpus: the trees are the REAL parser's (vh record corpus-trees, canonical names,
    physical lines); TLC computes the report / the presentation log the specification prescribes; the real linter / a recording visitor
    must produce exactly that (kind: corpuslint | corpusvisit)."""
    import subprocess
    binp = build_harness('debug')
    trees = run.path('corpus-trees.ndjson')
    p = subprocess.run([binp, 'record', 'corpus-trees', '--dir', os.path.join(VERIF, 'corpus'), '--out', trees], stdout=subprocess.PIPE,
                       stderr=subprocess.PIPE, text=True)
    if p.returncode != 0:
        raise ToolError('corpus-trees recorder failed: ' + p.stderr[-800:])
    out = run.path(kind + '.out')
    res = run_tlc('MC_Lint.tla', 'MC_Lint_%s.cfg' % kind, out, extra_env={'CORPUS': trees}, xss='256m')
    run.add_tlc(kind, res)
    s = run_replay(family, out, timeout_ms=60000, env=env)
    run.add_replay(kind, s, family)
    for f in (out, trees):
        try:
            os.remove(f)
        except OSError:
            pass


CORPUS_ANALYSIS_NOTE = ('; the same on the program corpus (corpus/: the Rockstar programs of the repository\'s own integration tests), whose trees '
                        'are the real parser\'s')


def lintjob(run, kind, family):
    tlc_replay(run, 'lint-' + kind, 'MC_Lint.tla', 'MC_Lint_%s_%s.cfg' % (kind, run.tier), family)


def C16(run):
    run.rule = ('Visitor.tla defines the callback sequence and the exact fold term (Default / Leaf / Comb) of the expression-visiting runner; '
                'TLC checks each-once-in-order against an independent node inventory on every tree of the family (every node type in every '
                'child position); a recording visitor implemented outside the crate must produce the same log and term, and for EVERY '
                'choice of the failing callback the walk must stop there and return that error; non-trivial = more than one callback')
    lintjob(run, 'visit', 'visit')
    run.rule += CORPUS_ANALYSIS_NOTE
    corpus_analysis(run, 'corpusvisit', 'visit')


def C17(run):
    run.rule = ('Lint.tla defines both constant folders; TLC checks FoldSound (a reported value equals the value the abstract machine '
                'computes for the expression) and FoldExact (reported exactly for pure arithmetic) on all expressions of the family '
                '(atoms of every kind, unary, binary with single and list operands, depth 2-3); the real folders must agree with the model '
                '(value or refusal class) and the real interpreter must compute every reported value; non-trivial = a value is reported')
    lintjob(run, 'fold', 'fold')
    # where the folder's value reaches the user: every numeric value the boring-assignment lint names must be what the interpreter
    # prints for that right-hand side (checked on the implementation alone, also for values outside the model's exact numbers)
    run.rule += ('; every numeric value named by a lint diagnostic of the lint family is compared with what the interpreter prints for that '
                 'right-hand side')
    tlc_replay(run, 'lint-values', 'MC_Lint.tla', 'MC_Lint_lint_%s.cfg' % run.tier, 'lint', env={'VH_LINT_PARTS': 'values'})
    corpus_analysis(run, 'corpuslint', 'lint', env={'VH_LINT_PARTS': 'values'})


def C18(run):
    run.rule = ('every assignment form x right-hand side of the family (constants incl. 0, fractions, negatives, -0, inf, NaN, strings with '
                'blanks / line breaks, non-constants, list operands) at several nesting depths; the linter\'s report must equal the model\'s '
                '(line, target, value, suggestion text) and every suggested line is parsed and run by the real front end and interpreter and '
                'must give the target the reported value; non-trivial = at least one diagnostic; plus family lint-as-text: programs '
                'with constant assignments at every depth rendered by Grammar.tla under 10 tapes x 3 namings (one tape puts a comment '
                'spanning three line breaks between all tokens): the report of the real front end + linter must name the physical lines')
    lintjob(run, 'lint', 'lint')
    grammar(run, 'lint', family='e2e', parts='lint')
    run.rule += CORPUS_ANALYSIS_NOTE + ' (554 diagnostics)'
    corpus_analysis(run, 'corpuslint', 'lint')


def C19(run):
    run.rule = ('the full report (both passes, stable order by line, pass order on ties) of every program of the lint family incl. all pairs '
                '(thorough: triples) of 19 mention-order statements must equal the model; TLC checks sortedness, tie order and the repeated-'
                'identifier definition on the model; the program must be unchanged and the linter must not panic')
    lintjob(run, 'lint', 'lint')
    grammar(run, 'lint', family='e2e', parts='lint')          # reports on rendered programs: physical line numbers behind multi-line comments
    run.rule += CORPUS_ANALYSIS_NOTE + ' (554 diagnostics)'
    corpus_analysis(run, 'corpuslint', 'lint')
    if run.tier == 'thorough':
        grammar(run, 'e2e', family='e2e', parts='lint')       # all interpreter families as text, real mention spellings


def C02(run):
    run.rule = ('Grammar.tla renders a syntax tree under a choice tape (keyword alias x letter case, worded/symbolic operators, put/let, '
                'separators, optional words and word orders, name spelling per mention, literal aliases, numeral spellings, noise between '
                'tokens incl. comments / multi-line comments / non-ASCII blanks, line-end decoration); for every tree of the families expr '
                '(all operator pairs in both nestings, unary mixes, list operands, primaries), stmt (all 18 statement kinds with every optional '
                'part) and block (nesting, empty blocks, if/else-closes-function) TLC enumerates the canonical rendering, every single '
                'deviation from it, and pseudo-random full tapes; the real parser must return exactly the tree (positions erased; numbers by '
                'value). The expressibility rules are an ASSUME checked on the family.')
    run.assumptions += ['"every spelling" = the choice points of Grammar.tla (grown from the alias table and the parser\'s optional-token sites)']
    for fam in ('expr', 'stmt', 'block'):
        grammar(run, fam)
    # "numbers denote exactly their written value": number literals of the exact, big and tiny classes are atoms of family expr;
    # the numbers that poetic literals spell (1-22 digits) are family poetic, judged without the open-delimiter strings of C11
    grammar(run, 'poetic', family='poeticrun')
    # the other direction: texts the grammar did not produce.  The recogniser model assigns each line-fragment soup text a tree or
    # an error line; the real parser must assign the same (accepted texts: exactly the tree).
    parser_soup(run, ['lines3', 'else4'] if run.tier == 'quick' else ['lines4', 'core4', 'else5'])
    # ... and real programs: the texts of the program corpus get the recogniser model's verdict
    run.rule += '; the texts of the program corpus (the repository\'s own test programs) get the recogniser model\'s verdict: same tree / same error line'
    corpus_parse(run)
    # "string literals denote exactly their written value" also for the user of the tool: programs whose literals hold carriage returns
    # and line breaks through `rrss parse` / `rrss exec` (CliTrace.tla: the tool prints the library's tree and output)
    clitrace(run, (('cli', 1000),), only=lambda l: '\\\\r' in l)
    if run.tier == 'thorough':
        grammar(run, 'e2e', family='e2e', parts='run')
        tlc_replay(run, 'parser-simlines', 'MC_Parser.tla', 'MC_Parser_simlines.cfg', 'verdict', simulate='num=4000', workers=8, xss='256m')


def C11(run):
    run.rule = ('family poetic: every sequence of 1-2 (thorough: 3) items over 17 poetic-literal items (word lengths 1, 2, 6, 9, 10, 11, 20, '
                'inner apostrophe, non-ASCII letters, keywords and literal words used as words, numerals, \'s / \'re / -word suffixes, periods), '
                'long integer and fraction parts (15-22 words), in assignments and after `rock .. like`, each under every one-choice spelling '
                'variation; poetic strings with blanks, punctuation, closed quotes and parentheses. The parsed literal must have exactly the '
                'elements, its value must be the numeral that Poetic.tla\'s digits spell (exact below 2^53, 4 ulp otherwise) and the interpreter '
                'must assign it. Expression admission (literal word / negative number first) is covered by the stmt family of C02. The '
                'poetic-string programs are also run through the built binary (CliTrace.tla).')
    grammar(run, 'poetic', family='poetic')
    # "a right-hand side that starts with a literal word or a negative number is instead an ordinary expression": every sequence of
    # fragments after `foo is` / `rock foo like` / `foo says`; the recogniser model and the real parser must agree on the verdict
    # (same tree, or rejected at the same line) - `foo is true love` is a syntax error, not the number 44
    run.rule += ('; admission: all sequences of 4 (thorough: 5) fragments over `foo is`, `rock foo like`, `foo says`, literal words, `-`, a '
                 'numeral, words, period, \'s, plus, line break get the verdict of the recogniser model Parser.tla (same tree / rejected at the same line)')
    parser_soup(run, ['poetic4'] if run.tier == 'quick' else ['poetic5'])
    # the same poetic strings through the command-line tool: what `rrss exec FILE` prints is what the library prints (text taken
    # verbatim up to the end of the line, trailing blanks included)
    clitrace(run, (('poetic', 400),), only=lambda l: 'pstr' in l)


def C13(run):
    run.rule = ('Faults.tla: a catalogue of 83 one-line syntax faults (missing operand, missing keyword, two statements on a line, a line that '
                'cannot start a statement, unterminated string) x 11 contexts (first / last line with and without final newline, after '
                'multi-line strings and comments, inside loop / else / after a function, after blank lines) x 2 letter cases; the parser '
                'must reject the text and name the line of the fault (1 + line breaks before it)')
    run.rule += ('; all token-soup texts up to the bound are parsed by the recogniser model Parser.tla (mirror of parser.rs, error location = '
                 'current token\'s line or the lexer\'s line at end of input) and the real parser must reject exactly the same texts at exactly the same line')
    run.assumptions += ['the catalogue is hand-written (context-independent by construction); for soup texts "the line of the offending token" is the recogniser model\'s']
    grammar(run, 'fault', family='fault')
    # beyond the catalogue: every token-soup text; the recogniser model decides acceptance and the error line
    parser_soup(run, ['full2', 'tiny3', 'core3', 'lines3', 'else4'] if run.tier == 'quick' else ['full3', 'core4', 'tiny4', 'stmt5', 'lines4', 'else5'], env={'VH_REJECT_ONLY': '1'})
    # the corpus holds programs the pinned parser rejects (constructs it does not support): same line as the recogniser model
    corpus_parse(run, env={'VH_REJECT_ONLY': '1'})


def C20(run):
    import subprocess
    run.rule = ('Cli.tla models the process (usage check, file open, parse, output chunk by chunk, error report, exit) and TLC checks its '
                'invariants (errors never on stdout, error after all output in the merged stream, prefixed errors, non-zero exit for a '
                'missing file / bad usage, nothing after exit) over all parameter shapes; the built binary is then run on a corpus that TLC '
                'produces from the grammar renderer (12 whole programs with stdin contents incl. run-time errors after output and reads past '
                'end of input, the fault catalogue of C13 for parse errors) x {exec, lint, parse}, each with separate pipes, one merged pipe '
                'and a repeat; every observation is recorded next to the library\'s in-process result and validated by TLC against '
                'CliTrace.tla; non-trivial = distinct trace lines')
    run.assumptions += ['`rrss` with no argument at all exits 0 today; the statement does not settle whether that is bad usage, so it is not judged',
                        'ASCII corpus (TLC prints non-ASCII as ?)']
    run.add_tlc('cli-model', run_tlc('MC_Cli.tla', 'MC_Cli.cfg', run.path('mc_cli.out'), workers=4))
    clitrace(run, (('cli', 1000), ('fault', 120 if run.tier == 'quick' else 2000), ('stmt', 60 if run.tier == 'quick' else 600)), raw=RAW_TEXTS)


PROPS = {
    'C01': (C01, 'model_checking'),
    'C02': (C02, 'model_checking'),
    'C03': (C03, 'model_checking'),
    'C06': (C06, 'model_checking'),
    'C04': (C04, 'model_checking'),
    'C05': (C05, 'model_checking'),
    'C07': (C07, 'model_checking'),
    'C08': (C08, 'model_checking'),
    'C09': (C09, 'model_checking'),
    'C10': (C10, 'model_checking'),
    'C15': (C15, 'model_checking'),
    'C16': (C16, 'model_checking'),
    'C17': (C17, 'model_checking'),
    'C18': (C18, 'model_checking'),
    'C19': (C19, 'model_checking'),
    'C20': (C20, 'model_checking'),
    'C11': (C11, 'model_checking'),
    'C12': (C12, 'model_checking'),
    'C13': (C13, 'fault_enumeration'),
    'C14': (C14, 'model_checking'),
}
