------------------------------ MODULE LexTrace ------------------------------
(***************************************************************************)
(* Implementation -> specification: token streams recorded from the real   *)
(* lexer on texts far longer than the exhaustive bounds are checked        *)
(* against the property-level specification of C12 (TokensWellFormed in    *)
(* Lexer.tla: ordered non-overlapping slices, ignorable gaps, true start   *)
(* and end positions) and against the model's own tokenisation.            *)
(* One trace line = one text: [src, toks].  The only action consumes the   *)
(* next line and is enabled iff the recorded stream is accepted.           *)
(***************************************************************************)
EXTENDS Lexer, Json, IOUtils

Rec == ndJsonDeserialize(IOEnv.TRACE)

CONSTANT PropertyOnly     \* TRUE: judge by C12 itself only (any tokenisation with true slices and positions is accepted)

VARIABLE l
Init == l = 1

Proj(t) == [id |-> t.id, b |-> t.b, e |-> t.e, sl |-> t.sl, sc |-> t.sc, el |-> t.el, ec |-> t.ec]
ProjAll(ts) == [n \in 1..Len(ts) |-> Proj(ts[n])]
SliceOK(src, cx, ts) == \A n \in 1..Len(ts) :
   /\ ts[n].b >= 0 /\ ts[n].b <= ts[n].e /\ ts[n].e <= cx.total
   /\ cx.inv[ts[n].b + 1] # 0 /\ cx.inv[ts[n].e + 1] # 0

WithSpelling(src, cx, ts) ==     \* the recorded stream with each token's spelling taken from its byte slice
  [n \in 1..Len(ts) |->
     LET t == ts[n] IN
     [id |-> t.id, b |-> t.b, e |-> t.e, sl |-> t.sl, sc |-> t.sc, el |-> t.el, ec |-> t.ec,
      sp |-> Sub(src, cx.inv[t.b + 1], cx.inv[t.e + 1])]]

AcceptedByProperty(r) ==
  LET ts == r.toks cx == Ctx(r.src) IN
  /\ SliceOK(r.src, cx, ts)
  /\ TokensWellFormed(r.src, WithSpelling(r.src, cx, ts))
  /\ LET last == IF ts = <<>> THEN 0 ELSE ts[Len(ts)].e IN GapIgnorableC(r.src, cx, last, cx.total)

AcceptedByModel(r) == ProjAll(LexAll(r.src)) = ProjAll(r.toks)

Consume == /\ l <= Len(Rec)
           /\ AcceptedByProperty(Rec[l])
           /\ (PropertyOnly \/ AcceptedByModel(Rec[l]))
           /\ l' = l + 1
Next == Consume
Spec == Init /\ [][Next]_l

(* acceptance: every line was consumed; otherwise print the first rejected one *)
Accepted ==
  LET n == TLCGet("stats").diameter IN
  IF n = Len(Rec) + 1 THEN TRUE
  ELSE /\ PrintT(<<"REJECTED", n, ToJson(Rec[n]),
                   "property", AcceptedByProperty(Rec[n]), "model", AcceptedByModel(Rec[n])>>)
       /\ FALSE
=============================================================================
