------------------------------ MODULE CliTrace ------------------------------
(***************************************************************************)
(* Implementation -> specification for C20: each trace line records one    *)
(* run of the built `rrss` binary (separate pipes and one merged pipe)     *)
(* together with what the library did in-process with the same file and    *)
(* standard input; the line is accepted iff the process observation is the *)
(* final state Cli.tla prescribes for those parameters.                    *)
(***************************************************************************)
EXTENDS CliFormat, Json, IOUtils, TLC

Rec == ndJsonDeserialize(IOEnv.TRACE)
VARIABLE l
Init == l = 1

Accepts(r) ==
  LET f == Final(r.p) IN
  IF r.p.usage = "bad" \/ r.p.file = "missing" THEN r.proc.stdout = "" /\ r.proc.code # 0
  ELSE /\ r.proc.stdout = f.stdout
       /\ r.proc.stderr = f.stderr
       /\ r.proc.code = 0
       /\ r.proc.merged = f.stdout \o f.stderr             \* the error comes after all output
Consume == l <= Len(Rec) /\ Accepts(Rec[l]) /\ l' = l + 1
Spec == Init /\ [][Consume]_l
Accepted ==
  LET n == TLCGet("stats").diameter IN
  IF n = Len(Rec) + 1 THEN TRUE ELSE PrintT(<<"REJECTED", n, ToJson(Rec[n])>>) /\ FALSE
=============================================================================
