------------------------------ MODULE CliTrace ------------------------------
(***************************************************************************)
(* Implementation -> specification for C20: each trace line records one    *)
(* run of the built `rrss` binary (separate pipes and one merged pipe)     *)
(* together with what the library did in-process with the same file and    *)
(* standard input; the line is accepted iff the process observation is the *)
(* final state Cli.tla prescribes for those parameters.                    *)
(***************************************************************************)
EXTENDS CliFormat, Json, IOUtils, TLC

Rec == ndJsonDeserialize(IOEnv.TRACE)
VARIABLE l
Init == l = 1

(* Two further observations of `exec` on a program whose first input/output event is a `say`:                       *)
(*   "prompt"        standard input is held open and nothing is sent until the first standard-output byte has arrived *)
(*                   (or 15 s have passed): SayLine makes the line visible when the statement runs, not at exit, so a  *)
(*                   later `listen` finds its prompt already delivered (C08: "before the next statement runs")        *)
(*   "stdout_closed" standard output is a pipe without a reader: the first SayLine fails, which is a runtime error    *)
(*                   reported on standard error (its wording is the operating system's)                               *)
(* The recorder also emits a line of kind "nondeterministic" (a repeat of the same command gave another observation),          *)
(* "model-disagrees" (the library's run is not the run Interp.tla prescribes for the program) or "colour-changes-text" (with      *)
(* colours forced on, as on a terminal, the text between the colour sequences is not the plain text) when it sees such a thing:   *)
(* no run of Cli.tla produces these kinds, so the line is rejected.  So is "library-panicked".                                    *)
Accepts(r) ==
  LET f == Final(r.p) IN
  IF r.p.usage = "bad" \/ r.p.file = "missing" THEN r.proc.stdout = "" /\ r.proc.code # 0
  ELSE IF r.p.lib.k = "library-panicked" THEN FALSE      \* no result to compare the tool with: the library itself panicked (running, or rendering its error)
  ELSE IF r.p.lib.k = "prompt" THEN r.proc.prompt_first
  ELSE IF r.p.lib.k = "stdout_closed" THEN r.proc.code = 0 /\ Len(r.proc.stderr) >= 15 /\ SubSeq(r.proc.stderr, 1, 15) = "Runtime error: "
  ELSE /\ r.proc.stdout = f.stdout
       /\ r.proc.stderr = f.stderr
       /\ r.proc.code = 0
       /\ r.proc.merged = f.stdout \o f.stderr             \* the error comes after all output
Consume == l <= Len(Rec) /\ Accepts(Rec[l]) /\ l' = l + 1
Spec == Init /\ [][Consume]_l
Accepted ==
  LET n == TLCGet("stats").diameter IN
  IF n = Len(Rec) + 1 THEN TRUE ELSE PrintT(<<"REJECTED", n, ToJson(Rec[n])>>) /\ FALSE
=============================================================================
