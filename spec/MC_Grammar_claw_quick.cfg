CONSTANTS
  MaxSteps = 3000
  Family = "claw"
  Tier = "quick"
INIT Init
NEXT Next
INVARIANT Emit
CHECK_DEADLOCK FALSE
