CONSTANTS
  MaxSteps = 3000
  Family = "e2e"
  Tier = "quick"
INIT Init
NEXT Next
INVARIANT Emit
CHECK_DEADLOCK FALSE
