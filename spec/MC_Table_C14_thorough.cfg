CONSTANT Tier = "thorough"
CONSTANT Kinds = {"laws","bin","un","inc"}
INIT Init
NEXT Next
INVARIANT TotalResult
INVARIANT LawsHold
INVARIANT ArrayLaws
INVARIANT MutationLaws
INVARIANT Emit
CHECK_DEADLOCK FALSE
