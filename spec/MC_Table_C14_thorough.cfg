CONSTANT Tier = "thorough"
CONSTANT Kinds = {"laws"}
INIT Init
NEXT Next
INVARIANT TotalResult
INVARIANT LawsHold
INVARIANT ArrayLaws
INVARIANT MutationLaws
INVARIANT Emit
CHECK_DEADLOCK FALSE
