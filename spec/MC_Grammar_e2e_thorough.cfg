CONSTANTS
  MaxSteps = 3000
  Family = "e2e"
  Tier = "thorough"
INIT Init
NEXT Next
INVARIANT Emit
CHECK_DEADLOCK FALSE
