----------------------------- MODULE MC_Grammar -----------------------------
(***************************************************************************)
(* Bounded instance of the grammar: a family of syntax trees, each         *)
(* rendered canonically and with every single deviation from the canonical *)
(* spelling (one non-default choice at every choice point), under several  *)
(* namings.  Every rendering is printed for replay into the real parser,   *)
(* which must produce exactly the tree.                                    *)
(***************************************************************************)
EXTENDS Grammar, ProgFamilies, Json

FA == INSTANCE Faults
LI == INSTANCE Lint
PA == INSTANCE Parser WITH SuffixUsesStaleLine <- FALSE

CONSTANT Family
VARIABLE c

X == Var("x")
Y == Var("y")
Z == Var("z")
B(op, l, r) == Bin(op, l, <<r>>)

AbstractNames == <<"x", "y", "z", "f", "g", "p", "q", "r", "fun", "k", "loc", "h", "i", "t", "v", "nope", "pair", "a", "b", "dup", "gcd", "mm", "nn",
                   "ff", "inner", "outer", "helper", "arr", "j", "grow", "d", "c", "got">>
Naming(off) == LET sc == NMS!Scheme(AbstractNames, off) IN
               [n \in {AbstractNames[i] : i \in 1..Len(AbstractNames)} |-> sc[CHOOSE i \in 1..Len(AbstractNames) : AbstractNames[i] = n]]

-----------------------------------------------------------------------------
(* expressions *)
L1 == {"and", "or", "nor"}
L2 == {"eq", "ne", "gt", "ge", "lt", "le"}
L3 == {"plus", "minus"}
L4 == {"times", "over"}
AllOps == L1 \cup L2 \cup L3 \cup L4
Level(op) == CASE op \in L1 -> 1 [] op \in L2 -> 2 [] op \in L3 -> 3 [] op \in L4 -> 4

(* every ordered pair of binary operators in both nestings, where the grammar can express the nesting *)
OpPairs == AllOps \X AllOps
PrecTrees == { B(pr[2], B(pr[1], X, Y), Z) : pr \in { q \in OpPairs : Level(q[1]) >= Level(q[2]) } }
        \cup { B(pr[1], X, B(pr[2], Y, Z)) : pr \in { q \in OpPairs : Level(q[2]) > Level(q[1]) } }
UnaryTrees == { Un(u, X) : u \in {"neg", "not"} } \cup { Un("not", Un("not", X)), Un("neg", N(5)), Un("not", Un("neg", X)) }
        \cup { B(o, Un(u, X), Y) : o \in {"and", "lt", "plus", "times"}, u \in {"neg", "not"} }
        \cup { B(o, X, Un(u, Y)) : o \in {"and", "lt", "plus", "times"}, u \in {"neg", "not"} }
Atoms == { X, Pro, N(5), N(0), Lit(Fin(32)), Lit(Fin(224)), Lit(Tiny(1, TinyText)), Lit(Big(1, "123456789012345")), S("a b"), S(""), Lit(Bool(TRUE)), Lit(Bool(FALSE)), Lit(Null), Lit(Myst) }
Primaries == { Idx(X, N(0)), Idx(X, Y), Idx(Idx(X, N(1)), S("k")), Idx(Pro, Y), Call("f", <<X>>), Call("f", <<X, N(1)>>), Call("f", <<X, Y, Z>>),
               Call("f", <<Un("not", X), Call("g", <<Y, Z>>)>>), RollE(X), RollE(Idx(X, N(0))), Idx(X, Call("f", <<Y, Z>>)), Idx(X, RollE(Y)) }
ListTrees == { Bin(o, X, <<Y, Z>>) : o \in AllOps \ {"eq"} } \cup { Bin("plus", X, <<Y, Z, N(1), N(2)>>) }
        \cup { Bin("plus", X, <<N(1), B("times", Y, Z)>>), B("plus", X, Bin("times", Y, <<Z, N(1)>>)),
               Bin("plus", N(1), <<N(2), B("times", N(3), N(4)), B("times", N(5), N(6)), N(7)>>),
               B("plus", Bin("times", X, <<Y, Z>>), N(1)), Bin("and", X, <<Pro, B("lt", Y, Z)>>), B("and", X, Bin("lt", Y, <<Z, Pro>>)), Bin("plus", X, <<Y, Call("f", <<Z, N(1)>>)>>),
               Bin("lt", B("gt", X, Y), <<Z, N(1)>>), B("ne", B("eq", X, Y), Z), B("le", B("ge", X, Y), Z) }
Exprs(z) == Atoms \cup Primaries \cup PrecTrees \cup UnaryTrees \cup ListTrees
ASSUME \A e \in Exprs(0) : Expressible(e) \/ (PrintT(<<"INEXPRESSIBLE", e>>) /\ FALSE)

-----------------------------------------------------------------------------
(* statements: every kind, every optional part *)
PL1 == PLit(<<PW("lovely"), PW("day")>>)
PL2 == PLit(<<PW("a"), PD, PW("lot"), PS("'s"), PW("more")>>)
PL3 == PLit(<<PW("over"), PS("-the"), PS("-top"), PW("rock"), PS("'re")>>)
Stmts(z) ==
     { Put(e, "x") : e \in { N(5), X, B("plus", X, Y) } }
\cup { SAssign(0, d, o, v) : d \in { X, Idx(X, N(0)), Pro, Idx(Idx(X, Y), S("k")) }, o \in {"none", "plus", "minus", "times", "over"}, v \in { <<N(1)>>, <<N(1), Y>> } }
\cup { SPNum(0, d, e) : d \in { X, Idx(X, N(0)), Pro }, e \in { PL1, PL2, PL3, N(5), Un("neg", N(5)), Lit(Bool(TRUE)), S("str"), B("plus", N(1), N(2)), Lit(Myst) } }
\cup { SPStr(0, d, t) : d \in { X, Idx(X, N(0)) }, t \in { "hello world", "  two leading, and trailing ", "with (paren) and \"quotes\" inside", "" } }
\cup { SInc(0, d, n) : d \in { X, Pro }, n \in {1, 2, 4} } \cup { SDec(0, d, n) : d \in { X, Pro }, n \in {1, 3} }
\cup { SListen(0, d) : d \in { ENone, X, Idx(X, Y), Pro } }
\cup { Say(e) : e \in { X, N(5), B("plus", X, N(1)) } }
\cup { SMut(0, o, X, d, p) : o \in {"cut", "join", "cast"}, d \in { ENone, Y, Idx(Y, N(0)) }, p \in { ENone, S(","), B("plus", X, N(1)) } }
\cup { SMut(0, "cut", a, Y, ENone) : a \in { S("lit"), Idx(X, N(0)), Call("f", <<X>>), Pro } }
\cup { STurn(0, d, e) : d \in {"up", "down", "nearest"}, e \in { X, Pro, Idx(X, N(0)) } }
\cup { SBreak(0), SContinue(0) }
\cup { SRock(0, a, v) : a \in { X, Idx(X, N(0)), Pro }, v \in { <<>>, <<N(1)>>, <<N(1), Y, S("s")>>, <<PL1>>, <<PL2>>, <<Z, B("plus", X, Y)>>, <<Bin("plus", X, <<Y, Z>>)>> } }
\cup { SRoll(0, a, d) : a \in { X, Idx(X, N(0)) }, d \in { ENone, Y, Idx(Y, N(1)), Pro } }
\cup { SReturn(0, e) : e \in { X, N(5), B("plus", X, N(1)), Call("f", <<X>>) } }
\cup { SCall(0, "f", a) : a \in { <<X>>, <<X, N(1)>>, <<X, Y, Z>>, <<Call("g", <<X, Y>>)>> } }

Blocks(z) == {
  << <<Say(X), Say(Y)>>, <<Say(Z)>> >>,
  << <<SIf(0, X, <<Say(N(1))>>, FALSE, <<>>), Say(N(2))>> >>,
  << <<SIf(0, X, <<Say(N(1))>>, TRUE, <<Say(N(2))>>), Say(N(3))>> >>,
  << <<SIf(0, X, <<>>, FALSE, <<>>), Say(N(2))>> >>,
  << <<SIf(0, X, <<>>, TRUE, <<Say(N(2))>>), Say(N(3))>> >>,
  << <<SIf(0, X, <<Say(N(1))>>, TRUE, <<>>), Say(N(3))>> >>,
  << <<SWhile(0, X, <<Say(N(1)), SBreak(0)>>)>>, <<Say(N(2))>> >>,
  << <<SUntil(0, X, <<>>), Say(N(2))>> >>,
  << <<SWhile(0, X, <<SIf(0, Y, <<SUntil(0, Z, <<Say(N(1))>>)>>, TRUE, <<SContinue(0)>>), Say(N(2))>>), Say(N(3))>> >>,
  << <<SWhile(0, X, <<SIf(0, Y, <<Say(N(1))>>, FALSE, <<>>)>>)>>, <<Say(N(3))>> >>,
  << <<SFunc(0, "f", <<"p">>, <<SReturn(0, Var("p"))>>), Say(Call("f", <<N(1)>>))>> >>,
  << <<SFunc(0, "f", <<"p", "q", "r">>, <<Say(Var("p")), SIf(0, Var("q"), <<SReturn(0, N(1))>>, TRUE, <<SReturn(0, N(2))>>)>>), Say(N(3))>> >>,
  << <<SFunc(0, "f", <<"p", "q">>, <<SIf(0, Var("q"), <<SReturn(0, N(1))>>, FALSE, <<>>), SReturn(0, N(2))>>)>>, <<SCall(0, "f", <<N(1), N(2)>>)>> >>,
  << <<SFunc(0, "f", <<"p">>, <<>>), Say(N(3))>> >>,
  << <<SFunc(0, "f", <<"p">>, <<SWhile(0, Var("p"), <<SIf(0, X, <<SIf(0, Y, <<SBreak(0)>>, TRUE, <<SReturn(0, N(1))>>)>>, FALSE, <<>>)>>)>>), Say(N(3))>> >>,
  << <<SIf(0, X, <<SIf(0, Y, <<SIf(0, Z, <<Say(N(1))>>, TRUE, <<Say(N(2))>>)>>, TRUE, <<Say(N(3))>>)>>, TRUE, <<Say(N(4))>>)>>, <<Say(N(5))>> >>,
  << <<SIf(0, X, <<Say(N(1))>>, TRUE, <<SIf(0, Y, <<Say(N(2))>>, TRUE, <<Say(N(3))>>), Say(N(4))>>), Say(N(5))>> >>,
  << <<SWhile(0, X, <<SIf(0, Y, <<Say(N(2))>>, TRUE, <<Say(N(3))>>), Say(N(4))>>), Say(N(5))>> >>,
  << <<SFunc(0, "f", <<"p">>, <<SWhile(0, X, <<SIf(0, Y, <<Say(N(2))>>, TRUE, <<Say(N(3))>>), Say(N(4))>>), SReturn(0, N(1))>>)>>, <<Say(N(5))>> >>,
  << <<Say(B("eq", Pro, N(5))), SPNum(0, Pro, N(5)), Say(B("eq", Pro, Pro)), SIf(0, B("eq", Pro, Lit(Bool(TRUE))), <<SPNum(0, Pro, PL1)>>, FALSE, <<>>)>> >>
}

(* poetic literals (C11): every sequence of items; a 's / 're suffix needs a word (or suffix) before it, a literal *)
(* never starts with a hyphen                                                                                      *)
PItems == { PW("a"), PW("it"), PW("lovely"), PW("abcdefghi"), PW("abcdefghij"), PW("abcdefghijk"), PW("abcdefghijklmnopqrst"),
            PW("don't"), PW("~t~"), PW("and"), PW("not"), PW("nothing"), PW("5"), PS("'s"), PS("'re"), PS("-top"), PS("-and"), PD }
PSeqOK(es) == /\ es[1].k # "s"
              /\ \A i \in 2..Len(es) : es[i].k = "s" /\ CharAt(es[i].s, 1) = "'" =>
                     es[i - 1].k = "w" \/ (es[i - 1].k = "s" /\ CharAt(es[i - 1].s, 1) = "-")     \* one 's / 're per word
              /\ es[1] \notin { PW("nothing"), PW("5") }                     \* a literal word first makes it an expression
PSeqs(z) == { es \in UNION { [1..n -> PItems] : n \in 1..(IF Tier = "quick" THEN 2 ELSE 3) } : PSeqOK(es) }
            \cup { [i \in 1..n |-> PW("a")] : n \in {15, 16, 17, 18, 22} }            \* long integer parts
            \cup { <<PW("a"), PD>> \o [i \in 1..n |-> PW("ab")] : n \in {15, 17, 20} }
            \* suffixes without a word before them (after a period), several in a row: each is a word of its own
            \cup { <<PW("a"), PD, PS("-top"), PS("-and")>>, <<PW("a"), PD, PS("-top"), PS("-and"), PW("it")>>, <<PW("a"), PD, PS("-top"), PS("'s"), PS("-and")>>,
                   <<PW("it"), PS("-top"), PS("-and"), PS("'s"), PD, PS("-top"), PS("-top")>> }
PoeticTrees(z) == { << <<SPNum(0, X, PLit(es))>> >> : es \in PSeqs(z) }
             \cup { << <<SRock(0, X, <<PLit(es)>>)>> >> : es \in { q \in PSeqs(z) : Len(q) <= 2 } }
             \cup { << <<SPStr(0, X, t), Say(X)>> >> : t \in { "hello", " lead", "trail  ", "a, b. c! (d) \"e\" 'f' 5 is nothing", "~t~ \t x", "", "it's a \"quoted (thing)\" here",
                                                                 "the path is \"C:\\\"", "shrug (\\)", "a\\b \\", "\\\"x\\\" (\\) end" } }

Trees(z) ==
  CASE Family = "poetic" -> PoeticTrees(z)
    [] Family = "expr"  -> { << <<Say(e)>> >> : e \in Exprs(z) } \cup { << <<SIf(0, e, <<Say(N(1))>>, FALSE, <<>>)>> >> : e \in PrecTrees }
    [] Family = "stmt"  -> { << <<s>> >> : s \in Stmts(z) } \cup { << <<Say(N(1)), s, Say(N(2))>> >> : s \in Stmts(z) }
    [] Family = "block" -> Blocks(z)

-----------------------------------------------------------------------------
(* the poetic family is wide (all sequences of three items in the thorough tier): one naming and few mixed tapes for it *)
Narrow == Tier = "quick" \/ Family = "poetic"
NamingOffsets == IF Narrow THEN {0} ELSE {0, 12, 24}
(* the canonical rendering and every rendering with exactly one non-default choice *)
Tapes1(alts) == {<<>>} \cup UNION { { [j \in 1..i |-> IF j = i THEN v ELSE 0] : v \in 1..(alts[i] - 1) } : i \in 1..Len(alts) }
(* full tapes: every choice point takes a pseudo-random alternative (linear congruences with different multipliers) *)
Mixed(n, a, b) == [i \in 1..n |-> (a * i * i + b * i + a + b) % 47]
MixedTapes(n) == { Mixed(n + 4, ab[1], ab[2]) : ab \in (IF Narrow THEN {<<3, 7>>, <<5, 11>>, <<17, 2>>} ELSE {1, 3, 5, 7, 11, 13, 17, 19, 23} \X {2, 7, 9, 14, 22, 31}) }
Tapes(alts) == Tapes1(alts) \cup MixedTapes(Len(alts))

RECURSIVE RepStrG(_, _)
RepStrG(s, n) == IF n = 0 THEN "" ELSE s \o RepStrG(s, n - 1)
(* C20: a corpus of whole programs with standard-input contents: succeeding, failing at run time after output, reading input *)
CliCorpus(z) == {
  [tree |-> << <<Say(S("hello")), Say(B("plus", N(1), N(2)))>> >>, inp |-> <<>>],
  [tree |-> << <<SListen(0, X), Say(X), SListen(0, Y), Say(B("plus", Y, S("!")))>> >>, inp |-> <<"first" \o NL, "second">>],
  [tree |-> << <<SListen(0, X), Say(X), SListen(0, X), Say(X)>> >>, inp |-> <<>>],
  [tree |-> << <<Say(S("before")), Say(Un("neg", S("str"))), Say(S("after"))>> >>, inp |-> <<>>],
  [tree |-> << <<Say(S("one"))>>, <<Say(S("two")), SRoll(0, X, ENone)>>, <<Say(S("never"))>> >>, inp |-> <<>>],
  [tree |-> << <<Put(N(0), "x"), SWhile(0, B("lt", X, N(3)), <<SInc(0, X, 1), Say(X)>>), Say(S("done"))>> >>, inp |-> <<>>],
  [tree |-> << <<SFunc(0, "f", <<"p">>, <<SReturn(0, B("times", Var("p"), N(2)))>>), Say(Call("f", <<N(21)>>)), Say(Call("f", <<N(1), N(2)>>))>> >>, inp |-> <<>>],
  [tree |-> << <<Put(N(5), "x"), Put(N(5), "x"), Say(X), Say(X), SRock(0, Y, <<N(3)>>), Put(Un("neg", N(5)), "z")>> >>, inp |-> <<>>],
  [tree |-> << <<Say(Y)>> >>, inp |-> <<>>],
  [tree |-> << <<SListen(0, ENone), SListen(0, X), Say(X)>> >>, inp |-> <<NL, "x y" \o NL, "unused" \o NL>>],
  [tree |-> << <<>> >>, inp |-> <<>>],
  \* a prompt, then its answer; an answer read between two outputs; output, a read past the end of input, a run-time error
  [tree |-> << <<Say(S("name?")), SListen(0, X), Say(B("plus", S("hello "), X))>> >>, inp |-> <<"world" \o NL>>],
  [tree |-> << <<Say(N(1)), SListen(0, X), Say(N(2)), SListen(0, Y), Say(B("plus", X, Y))>> >>, inp |-> <<"a" \o NL, "b">>],
  [tree |-> << <<Say(S("ask")), SListen(0, X), Say(X), SListen(0, Y), Say(B("minus", Y, X))>> >>, inp |-> <<"only" \o NL>>],
  \* one `say` whose text holds a line break followed by more than a kilobyte (the line break is made by a cast: the model leaves
  \* the character undetermined, the binary must still print what the library prints); three mentions in a row on one line
  [tree |-> << <<Put(N(10), "x"), SMut(0, "cast", X, ENone, ENone), Say(B("plus", B("plus", S("header"), X), S(RepStrG("0123456789abcdef", 100))))>> >>, inp |-> <<>>],
  [tree |-> << <<Put(N(1), "x"), Put(B("plus", B("plus", X, X), X), "y"), Say(Y), Say(B("times", Y, Y))>> >>, inp |-> <<>>],
  [tree |-> << <<SPStr(0, X, "some text  "), Say(X), SMut(0, "cut", X, ENone, S(" ")), Say(X), Say(Idx(X, N(1)))>> >>, inp |-> <<>>],
  \* a run-time error that quotes a long value made of two-byte characters (the message is the library's, whatever its length)
  [tree |-> << <<Say(S("go")), SListen(0, X), SMut(0, "cast", X, ENone, ENone), Say(X)>> >>, inp |-> <<"x" \o RepStrG("~", 60) \o NL>>],
  [tree |-> << <<Say(S("go")), SListen(0, X), Say(B("minus", X, N(1)))>> >>, inp |-> <<RepStrG("~", 70) \o NL>>],
  \* string literals that hold line ends of both conventions (the tool reads the file as it is)
  [tree |-> << <<Say(S("one\r\ntwo")), Say(S("three\nfour\r")), SPStr(0, X, "five\r"), Say(X), Say(S("end"))>> >>, inp |-> <<>>],
  \* a run-time error that quotes an array with six keyed entries (its text is the same in every process)
  [tree |-> << <<SAssign(0, Idx(X, S("a")), "none", <<N(1)>>), SAssign(0, Idx(X, S("b")), "none", <<N(2)>>), SAssign(0, Idx(X, S("c")), "none", <<N(3)>>),
                 SAssign(0, Idx(X, S("d")), "none", <<N(4)>>), SAssign(0, Idx(X, Lit(Null)), "none", <<N(5)>>), SAssign(0, Idx(X, Lit(Bool(TRUE))), "none", <<N(6)>>),
                 Say(S("filled")), SMut(0, "cast", X, ENone, ENone), Say(S("unreachable"))>> >>, inp |-> <<>>],
  \* a call chain 700 activations deep (the library runs it; so must the tool)
  [tree |-> << <<SFunc(0, "f", <<"p">>, <<SIf(0, B("eq", Var("p"), N(0)), <<SReturn(0, S("bottom"))>>, FALSE, <<>>),
                                         Put(B("minus", Var("p"), N(1)), "z"), SReturn(0, Call("f", <<Z>>))>>)>>,
               <<Say(S("start")), Say(Call("f", <<N(700)>>)), Say(S("end"))>> >>, inp |-> <<>>, norun |-> TRUE]
}
(* (norun: the model does not run the program itself - a call chain hundreds of activations deep is slow to step through -, the   *)
(* library's own run is the reference for the tool)                                                                                *)
CliCases(z) == { LET nm == Naming(0) r == Render(<<>>, nm, cc.tree)
                     fin == IF "norun" \in DOMAIN cc THEN [out |-> "", st |-> "unspec"] ELSE RunAll(InitQuiet(cc.tree, cc.inp, -1, 0)) IN
                 [k |-> "cli", text |-> r.text, inp |-> cc.inp, out |-> fin.out, st |-> fin.st] : cc \in CliCorpus(z) }
LoadCli == /\ c.k = "init" /\ Family = "cli"
           /\ c' \in CliCases(0)

(* end to end (text -> front end -> interpreter / linter): the programs of the interpreter families that some text denotes, *)
(* rendered canonically and under pseudo-random full tapes; the model's run and the model's lint report come with the text  *)
E2ETrees(z) == { p \in CFPrograms(z) \cup FNPrograms(z) \cup MUPrograms(z) \cup (IF Tier = "quick" THEN {} ELSE ARPrograms(z)) : ProgramOK(p) }
E2EIO(z) == { cc \in { [tree |-> <<p>>, inp |-> i] : p \in IOProgs, i \in IOInputs } : ProgramOK(cc.tree) }
MapLines(evs, lines) == [n \in 1..Len(evs) |-> [evs[n] EXCEPT !.line = lines[evs[n].line]]]
ClashNaming(k) == [n \in {"x", "y", "fun"} |-> NMS!Variants(CASE n = "x" -> NMS!ClashPairs[k][1] [] n = "y" -> NMS!ClashPairs[k][2] [] OTHER -> <<"simple", "foo">>)]
E2ECase(tree, inp, tp, off) ==
  LET nm == IF off < 0 THEN ClashNaming(-off) ELSE Naming(off)      \* negative: the k-th pair of names that must stay apart
      numbered == Number(tree)
      r == Render(tp, nm, numbered)
      fin == RunAll(Init0(numbered, inp, -1, 0))
      rep == LI!Report(numbered)
  IN [k |-> "e2e", text |-> r.text, naming |-> nm, tape |-> tp, lines |-> r.lines, inp |-> inp,
      st |-> fin.st, out |-> fin.out, rd |-> fin.rd, evs |-> MapLines(fin.evs, r.lines),
      report |-> [n \in 1..Len(rep) |-> [rep[n] EXCEPT !.line = r.lines[rep[n].line]]]]
E2ETapes == {<<>>} \cup { Mixed(64, ab[1], ab[2]) : ab \in {<<3, 7>>, <<5, 11>>, <<17, 2>>, <<29, 4>>, <<31, 8>>, <<37, 16>>, <<41, 1>>, <<43, 6>>} }
Noisy == [i \in 1..64 |-> 30]          \* every statement closed by a comment that spans three line breaks (30 % 11 = 8)
E2ETapesFew == {<<>>, Mixed(64, 5, 11)}
(* picking a case is cheap and sequential; expanding it (render, run, lint) is a separate step so that all workers share it *)
(* a family tree that no text denotes would be dropped silently by the ProgramOK filter: refuse to start instead *)
ASSUME Family # "cf" \/ \A p \in CTPrograms(0) : ProgramOK(p) \/ (PrintT(<<"INEXPRESSIBLE", p>>) /\ FALSE)
ASSUME Family # "lint" \/ \A p \in LTPrograms(0) \cup PRPrograms(0) : ProgramOK(p) \/ (PrintT(<<"INEXPRESSIBLE", p>>) /\ FALSE)
LoadCT == /\ c.k = "init" /\ Family = "cf"
          /\ \E t \in { p \in CTPrograms(0) : ProgramOK(p) }, tp \in E2ETapes \cup {Noisy}, off \in {0, 12} :
                c' = [k |-> "e2epick", tree |-> t, inp |-> <<>>, tape |-> tp, off |-> off]
ASSUME Family # "claw" \/ \A p \in CLPrograms(0) : ProgramOK(p) \/ (PrintT(<<"INEXPRESSIBLE", p>>) /\ FALSE)
ASSUME Family # "claw" \/ CompoundIsExpanded            \* the law on the model: both forms run the same
LoadCL == /\ c.k = "init" /\ Family = "claw"
          /\ \E t \in CLPrograms(0), tp \in E2ETapes, off \in {0, 12} :
                c' = [k |-> "e2epick", tree |-> t, inp |-> <<>>, tape |-> tp, off |-> off]
LoadLint == /\ c.k = "init" /\ Family = "lint"
            /\ \E t \in { p \in LTPrograms(0) \cup PRPrograms(0) : ProgramOK(p) }, tp \in E2ETapes \cup {Noisy}, off \in {0, 12, 24} :
                  c' = [k |-> "e2epick", tree |-> t, inp |-> <<>>, tape |-> tp, off |-> off]
(* the hand-written FN2 / PR / NC programs are meant to be text: one that no text denotes is a mistake of the family, not a case to drop *)
ASSUME Family # "e2e" \/ \A p \in FN2 \cup NCPrograms : ProgramOK(p) \/ (PrintT(<<"INEXPRESSIBLE", p>>) /\ FALSE)
LoadE2E == /\ c.k = "init" /\ Family = "e2e"
           /\ \/ \E t \in { p \in LTPrograms(0) : ProgramOK(p) }, tp \in {Noisy}, off \in {0} :
                    c' = [k |-> "e2epick", tree |-> t, inp |-> <<>>, tape |-> tp, off |-> off]
              \/ \E t \in { p \in FNPrograms(0) \cup MUPrograms(0) \cup PRPrograms(0) : ProgramOK(p) }, tp \in E2ETapes, off \in {0, 12, 24} :
                    c' = [k |-> "e2epick", tree |-> t, inp |-> <<>>, tape |-> tp, off |-> off]
              \/ \E t \in NCPrograms, tp \in E2ETapes, k \in 1..Len(NMS!ClashPairs) :
                    c' = [k |-> "e2epick", tree |-> t, inp |-> <<>>, tape |-> tp, off |-> -k]
              \/ \E t \in { p \in CFPrograms(0) : ProgramOK(p) }, tp \in E2ETapesFew, off \in {0} :
                    c' = [k |-> "e2epick", tree |-> t, inp |-> <<>>, tape |-> tp, off |-> off]
              \/ \E t \in { p \in (IF Tier = "quick" THEN {} ELSE ARPrograms3(0)) : ProgramOK(p) }, tp \in E2ETapesFew, off \in {12} :
                    c' = [k |-> "e2epick", tree |-> t, inp |-> <<>>, tape |-> tp, off |-> off]
              \/ \E cc \in E2EIO(0), tp \in E2ETapesFew : c' = [k |-> "e2epick", tree |-> cc.tree, inp |-> cc.inp, tape |-> tp, off |-> 0]
ExpandE2E == c.k = "e2epick" /\ c' = E2ECase(c.tree, c.inp, c.tape, c.off)

(* C13: every fault of the catalogue in every context; letter case varied as a whole *)
FaultCases(z) ==
  UNION { UNION { { [k |-> "fault", kind |-> FA!All[g][1], fault |-> FA!All[g][2][i],
                     text |-> cx.pre \o (IF up THEN NMS!Upper(FA!All[g][2][i]) ELSE FA!All[g][2][i]) \o cx.post,
                     line |-> 1 + FA!CountNl(cx.pre)]
                   : cx \in { FA!Contexts[j] : j \in 1..Len(FA!Contexts) }, up \in {FALSE, TRUE} }
                 : i \in 1..Len(FA!All[g][2]) } : g \in 1..Len(FA!All) }

(* poetic strings whose quote or parenthesis is not closed on the line: outside the quantifier of C11 (recorded finding) *)
OpenSays(z) == { [k |-> "saysopen", str |-> t, text |-> "foo says " \o t \o NL \o "say 1" \o NL \o "say 2" \o NL]
                 : t \in { "a \"b", "it (never ends", "\"", "x (y) (z" } }
LoadOpen == /\ c.k = "init" /\ Family = "poetic"
            /\ c' \in OpenSays(0)

Init == c = [k |-> "init"]
LoadFaults == /\ c.k = "init" /\ Family = "fault"
              /\ c' \in FaultCases(0)
Load == /\ c.k = "init" /\ Family \notin {"fault", "cli", "e2e", "lint", "cf", "claw"}
        /\ \E t \in Trees(0), off \in NamingOffsets : c' = [k |-> "tree", tree |-> t, off |-> off]
Vary == /\ c.k = "tree"
        /\ LET nm == Naming(c.off)
               canon == Render(<<>>, nm, c.tree)
           IN \E tp \in Tapes(canon.alts) :
                LET r == Render(tp, nm, c.tree) IN
                c' = [k |-> "text", tree |-> c.tree, naming |-> nm, tape |-> tp, text |-> r.text, lines |-> r.lines]
Strip == /\ c.k = "text" /\ c.tape = <<>>          \* the canonical rendering also without its trailing line ends
         /\ c' = [c EXCEPT !.k = "stripped", !.text = StripTrailingNl(c.text)]
Next == Load \/ LoadFaults \/ LoadOpen \/ LoadCli \/ LoadE2E \/ LoadLint \/ LoadCT \/ LoadCL \/ ExpandE2E \/ Vary \/ Strip

PoeticDigits(t) ==      \* the digits the first statement's poetic literal spells (C11), when it has one
  LET s == t[1][1]
      e == IF s.s = "pnum" THEN s.e ELSE IF s.s = "rock" /\ s.vals # <<>> THEN s.vals[1] ELSE ENone
  IN IF e.e = "plit" THEN PO!Digits(e.elems) ELSE [ip |-> <<>>, fp |-> <<>>]
-----------------------------------------------------------------------------
(* RoundTrip (C02 on the model): the recogniser model (Lexer.tla + Parser.tla) reads every rendering back as the tree it was  *)
(* rendered from.  Both trees are brought to a common form: names as case-folded keys, no line fields.                     *)
KeyFor(nm, n) == IF nm = <<>> THEN NMS!Key(n) ELSE NMS!Key(nm[n][1])      \* nm = <<>> : n is already a concrete name
RECURSIVE NormE(_, _)
RECURSIVE NormS(_, _)
NormEs(es, nm) == [i \in 1..Len(es) |-> NormE(es[i], nm)]
NormB(ss, nm) == [i \in 1..Len(ss) |-> NormS(ss[i], nm)]
NormE(e, nm) ==
  CASE e.e = "var" -> [e |-> "var", n |-> KeyFor(nm, e.n)]
    [] e.e = "idx" -> [e |-> "idx", a |-> NormE(e.a, nm), k |-> NormE(e.k, nm)]
    [] e.e = "call" -> [e |-> "call", f |-> KeyFor(nm, e.f), args |-> NormEs(e.args, nm)]
    [] e.e = "roll" -> [e |-> "roll", a |-> NormE(e.a, nm)]
    [] e.e = "un" -> [e |-> "un", op |-> e.op, x |-> NormE(e.x, nm)]
    [] e.e = "bin" -> [e |-> "bin", op |-> e.op, l |-> NormE(e.l, nm), r |-> NormEs(e.r, nm)]
    [] OTHER -> e
NormS(s, nm) ==
  CASE s.s = "assign" -> [s |-> "assign", dest |-> NormE(s.dest, nm), op |-> s.op, vals |-> NormEs(s.vals, nm)]
    [] s.s = "pnum" -> [s |-> "pnum", dest |-> NormE(s.dest, nm), e |-> NormE(s.e, nm)]
    [] s.s = "pstr" -> [s |-> "pstr", dest |-> NormE(s.dest, nm), str |-> s.str]
    [] s.s = "if" -> [s |-> "if", c |-> NormE(s.c, nm), th |-> NormB(s.th, nm), hasElse |-> s.hasElse, el |-> NormB(s.el, nm)]
    [] s.s \in {"while", "until"} -> [s |-> s.s, c |-> NormE(s.c, nm), body |-> NormB(s.body, nm)]
    [] s.s \in {"inc", "dec"} -> [s |-> s.s, dest |-> NormE(s.dest, nm), n |-> s.n]
    [] s.s = "listen" -> [s |-> "listen", dest |-> NormE(s.dest, nm)]
    [] s.s \in {"say", "return"} -> [s |-> s.s, e |-> NormE(s.e, nm)]
    [] s.s = "mut" -> [s |-> "mut", op |-> s.op, operand |-> NormE(s.operand, nm), dest |-> NormE(s.dest, nm), param |-> NormE(s.param, nm)]
    [] s.s = "turn" -> [s |-> "turn", dir |-> s.dir, e |-> NormE(s.e, nm)]
    [] s.s \in {"break", "continue"} -> [s |-> s.s]
    [] s.s = "rock" -> [s |-> "rock", a |-> NormE(s.a, nm), vals |-> NormEs(s.vals, nm)]
    [] s.s = "rollst" -> [s |-> "rollst", a |-> NormE(s.a, nm), dest |-> NormE(s.dest, nm)]
    [] s.s = "func" -> [s |-> "func", name |-> KeyFor(nm, s.name), ps |-> [i \in 1..Len(s.ps) |-> KeyFor(nm, s.ps[i])], body |-> NormB(s.body, nm)]
    [] s.s = "callst" -> [s |-> "callst", f |-> KeyFor(nm, s.f), args |-> NormEs(s.args, nm)]
NormP(bs, nm) == [i \in 1..Len(bs) |-> NormB(bs[i], nm)]

RoundTrip ==
  c.k \in {"text", "stripped"} =>
    LET v == PA!Verdict(c.text)
    IN v.ok /\ NormP(v.tree, <<>>) = NormP(c.tree, c.naming)

Emit == c.k \in {"init", "tree", "e2epick"} \/
        (c.k = "e2e" /\ PrintT(<<"R", ToJson([fam |-> "e2e", text |-> c.text, naming |-> c.naming, tape |-> c.tape, lines |-> c.lines,
                                              inp |-> c.inp, budget |-> -1, failAt |-> 0, st |-> c.st, out |-> c.out, rd |-> c.rd,
                                              evs |-> c.evs, report |-> c.report])>>)) \/
        (c.k = "cli" /\ PrintT(<<"R", ToJson([fam |-> "cli", text |-> c.text, inp |-> c.inp, out |-> c.out, st |-> c.st])>>)) \/
        (c.k = "saysopen" /\ PrintT(<<"R", ToJson([fam |-> "saysopen", text |-> c.text, str |-> c.str])>>)) \/
        (c.k = "fault" /\ PrintT(<<"R", ToJson([fam |-> "fault", kind |-> c.kind, fault |-> c.fault, text |-> c.text, line |-> c.line])>>)) \/
        PrintT(<<"R", ToJson([fam |-> "syntax", family |-> Family, text |-> c.text, tree |-> c.tree, naming |-> c.naming,
                              tape |-> c.tape, lines |-> c.lines, digits |-> PoeticDigits(c.tree)])>>)
=============================================================================
