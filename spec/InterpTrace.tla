----------------------------- MODULE InterpTrace -----------------------------
(***************************************************************************)
(* Implementation -> specification for the interpreter.  Each trace line   *)
(* records one run of the REAL interpreter on a seeded random program      *)
(* (tree in the schema of Interp.tla, input, bytes written, read calls,    *)
(* outcome and the environment snapshot after every completed statement).  *)
(* TLC steps the abstract machine of Interp.tla through the same program,  *)
(* one machine action per state; every snapshot the machine emits must be  *)
(* the recorded one at the same position, and at the end output, read      *)
(* calls and outcome must agree.  A run in which the machine leaves its    *)
(* specified region (inexact arithmetic, undefined index ...) is accepted  *)
(* from that point on.                                                     *)
(***************************************************************************)
EXTENDS Interp, Json, IOUtils

Rec == ndJsonDeserialize(IOEnv.TRACE)

CONSTANT CrashOnly       \* TRUE: accept every run in which the implementation did not crash (C09); the machine is still stepped

VARIABLES l, m            \* trace line being validated, machine state
vars == <<l, m>>

Load(k) == InitLast(Rec[k].prog, Rec[k].inp, -1, 0)
Init == l = 1 /\ m = IF Len(Rec) >= 1 THEN Load(1) ELSE [st |-> "none"]

(* a recorded value matches a model value: equal, except that the model's undetermined classes (a number outside the exact *)
(* domain, a one-character string it does not name) constrain only the kind                                                *)
RECURSIVE ValMatches(_, _)
ValMatches(mv, ov) ==
  CASE mv.t = "str1" -> ov.t = "str1" \/ (ov.t = "str" /\ Len(ov.s) = 1)
    [] mv.t = "num" /\ mv.c \in {"inexact", "rat"} -> ov.t = "num"
    [] mv.t = "num" -> ov.t = "num" /\ ov.c = mv.c /\ (mv.c = "fin" => ov.n = mv.n) /\ (mv.c \in {"big", "tiny", "dec"} => ov.s = mv.s /\ ov.d = mv.d)
    [] mv.t = "arr" -> /\ ov.t = "arr" /\ Len(ov.a) = Len(mv.a) /\ Len(ov.d) = Len(mv.d)
                       /\ \A i \in 1..Len(mv.a) : ValMatches(mv.a[i], ov.a[i])
                       /\ \A i \in 1..Len(mv.d) : mv.d[i].k = ov.d[i].k /\ ValMatches(mv.d[i].v, ov.d[i].v)
    [] OTHER -> mv = ov
ScopeMatches(ms, os) ==
  /\ DOMAIN ms = DOMAIN os
  /\ \A n \in DOMAIN ms : IF "func" \in DOMAIN ms[n] THEN ms[n] = os[n]
                            ELSE "var" \in DOMAIN os[n] /\ ValMatches(ms[n].var, os[n].var)
SnapMatches(me, oe) ==
  /\ me.line = oe.line /\ me.cf = oe.cf /\ me.last = oe.last /\ Len(me.scopes) = Len(oe.scopes)
  /\ \A i \in 1..Len(me.scopes) : ScopeMatches(me.scopes[i], oe.scopes[i])

(* the machine's new snapshot, if this step emitted one, equals the recorded snapshot at that position *)
EventOK(r, old, new) ==
  IF CrashOnly \/ new.nev = old.nev THEN TRUE
  ELSE IF new.nev > Len(r.evs) THEN FALSE
  ELSE SnapMatches(new.evs[1], r.evs[new.nev])

MachineStep == /\ l <= Len(Rec) /\ m.st = "run"
        /\ LET n == Next1(m) IN EventOK(Rec[l], m, n) /\ m' = n
        /\ UNCHANGED l

EndOK(r, fin) ==
  IF CrashOnly THEN r.st # "panic"
  ELSE IF fin.st \in {"unspec", "fuel", "blowup"} THEN r.st # "panic"
  ELSE fin.st = r.st /\ fin.out = r.out /\ fin.rd = r.rd /\ fin.nev = Len(r.evs)

Finish == /\ l <= Len(Rec) /\ m.st # "run"
          /\ EndOK(Rec[l], m)
          /\ PrintT(<<"FIN", l, m.st, m.nev, m.steps>>)          \* how far the specified region reached in this run
          /\ l' = l + 1
          /\ m' = IF l + 1 <= Len(Rec) THEN Load(l + 1) ELSE [st |-> "none"]

Next == MachineStep \/ Finish
Spec == Init /\ [][Next]_vars

Inv == m.st = "none" \/ MachineInv(m)

(* acceptance: all lines consumed.  TLC stops in the state where the machine and the record disagree; a constraint keeps  *)
(* the highest line reached in a TLC register (single worker)                                                            *)
Track == TLCSet(1, IF TLCGet(1) > l THEN TLCGet(1) ELSE l) 
ASSUME TLCSet(1, 0)
Accepted ==
  LET reached == TLCGet(1) IN
  IF reached = Len(Rec) + 1 THEN TRUE
  ELSE PrintT(<<"REJECTED", reached, "the machine cannot follow the recorded run number", reached,
                "(see the last state TLC explored)", ToJson([prog |-> Rec[reached].prog, st |-> Rec[reached].st, out |-> Rec[reached].out])>>) /\ FALSE
=============================================================================
