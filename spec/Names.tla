-------------------------------- MODULE Names --------------------------------
(***************************************************************************)
(* Concrete names (C15).  A variable, parameter or function name is one of *)
(* three kinds: simple <<"simple", w>>, common <<"common", article, w>> or *)
(* proper <<"proper", w1, ..., wn>> (n >= 2, every word capitalised).  The *)
(* symbol tables store a name under its case-folded key, in one table per  *)
(* kind, so that spellings differing only in letter case denote the same   *)
(* variable and names of different kinds or words denote different ones.   *)
(***************************************************************************)
EXTENDS Chars, Tokens

UpperOf(c) ==
  CASE c \in LowerLetters -> CharAt(UpperS, CHOOSE i \in 1..26 : CharAt(LowerS, i) = c)
    [] c = "~" -> "^"
    [] OTHER -> c
RECURSIVE Upper(_)
Upper(s) == IF s = "" THEN "" ELSE UpperOf(CharAt(s, 1)) \o Upper(Slice(s, 2, Len(s)))
Cap(s) == IF s = "" THEN "" ELSE UpperOf(CharAt(s, 1)) \o Lower(Slice(s, 2, Len(s)))
RECURSIVE Mixed(_, _)          \* alternating case, first letter as given by `up`
Mixed(s, up) == IF s = "" THEN "" ELSE (IF up THEN UpperOf(CharAt(s, 1)) ELSE LowerOf(CharAt(s, 1))) \o Mixed(Slice(s, 2, Len(s)), ~up)

(* the key a name is stored and looked up under *)
Key(n) == <<n[1]>> \o [i \in 1..(Len(n) - 1) |-> Lower(n[i + 1])]

(* pairs of DISTINCT names that a careless key would merge: the same letters with the word boundary elsewhere, a common name and   *)
(* the simple name spelled like it without the blank, the same word behind two articles                                           *)
ClashPairs == << << <<"proper", "Tom", "Sawyer">>, <<"proper", "Toms", "Awyer">> >>,
                 << <<"proper", "Doctor", "Feelgood">>, <<"proper", "Doctor", "Feel", "Good">> >>,
                 << <<"common", "the", "heart">>, <<"simple", "theheart">> >>,
                 << <<"common", "my", "heart">>, <<"common", "your", "heart">> >>,
                 << <<"proper", "Johnny", "B", "Goode">>, <<"proper", "Johnny", "Bgoode">> >> >>
ClashKeysDiffer == \A i \in 1..Len(ClashPairs) : Key(ClashPairs[i][1]) # Key(ClashPairs[i][2])

SimpleWords == <<"foo", "bar", "baz", "qux", "~clair", "zed", "quux", "corge", "grault", "garply", "waldo", "y'all">>
Articles    == <<"the", "my", "your", "a", "an", "our">>
CommonWords == <<"heart", "world", "night", "fire", "~t~", "dream">>
ProperNames == << <<"Doctor", "Feelgood">>, <<"Tom", "Sawyer", "Jr">>, <<"^mile", "Zola">>, <<"Johnny", "B", "Goode">>,
                  <<"Billie", "Jean">>, <<"Mister", "Crowley">>, <<"Black", "Betty">>, <<"Doctor", "Feel">>,
                  <<"Sawyer", "Tom">>, <<"Eleanor", "Rigby">>, <<"Major", "Tom">>, <<"Ziggy", "Stardust">> >>

Pool ==   [i \in 1..12 |-> <<"simple", SimpleWords[i]>>]
       \o [i \in 1..12 |-> <<"common", Articles[((i - 1) % 6) + 1], CommonWords[((i - 1) \div 2) + 1]>>]
       \o [i \in 1..12 |-> <<"proper">> \o ProperNames[i]]

(* spellings of one name that differ only in letter case; a proper name keeps its initial capitals *)
Variants(n) ==
  CASE n[1] = "simple" -> <<n, <<"simple", Cap(n[2])>>, <<"simple", Upper(n[2])>>, <<"simple", Mixed(n[2], FALSE)>> >>
    [] n[1] = "common" -> <<n, <<"common", Cap(n[2]), Upper(n[3])>>, <<"common", Upper(n[2]), Cap(n[3])>>, <<"common", n[2], Mixed(n[3], TRUE)>> >>
    [] n[1] = "proper" -> <<n, <<"proper">> \o [i \in 1..(Len(n) - 1) |-> Upper(n[i + 1])],
                              <<"proper">> \o [i \in 1..(Len(n) - 1) |-> Mixed(n[i + 1], TRUE)] >>

KeyCaseInvariant == \A i \in 1..Len(Pool) : \A k \in 1..Len(Variants(Pool[i])) : Key(Variants(Pool[i])[k]) = Key(Pool[i])
KeySeparatesDistinctNames == \A i, j \in 1..Len(Pool) : i # j => Key(Pool[i]) # Key(Pool[j])
(* no word of a name may be a keyword in any case, or the lexer would not produce a name at all *)
NoKeywordInNames == \A i \in 1..Len(Pool) : \A k \in 2..Len(Pool[i]) : (Pool[i][1] = "common" /\ k = 2) \/ ~IsKeyword(Lower(Pool[i][k]))
ProperShape == \A i \in 1..Len(Pool) : Pool[i][1] = "proper" => Len(Pool[i]) >= 3 /\ \A k \in 2..Len(Pool[i]) : IsUppercase(CharAt(Pool[i][k], 1))

NamesOK == KeyCaseInvariant /\ KeySeparatesDistinctNames /\ NoKeywordInNames /\ ProperShape /\ ClashKeysDiffer

(* a naming scheme: abstract names (in the given order) -> concrete names of the pool, rotated by `off`; *)
(* injective as long as there are no more abstract names than names in the pool                        *)
Scheme(abstract, off) == [i \in 1..Len(abstract) |-> Variants(Pool[((i - 1 + off) % Len(Pool)) + 1])]
=============================================================================
