-------------------------------- MODULE Chars --------------------------------
(***************************************************************************)
(* The source alphabet of the lexer model.  A source text is a TLA+ string *)
(* over one-character model symbols; symbols that stand for non-ASCII      *)
(* characters are ASCII place-holders which the harness concretises:       *)
(*                                                                         *)
(*    ~  U+00E9 e-acute        lower-case letter, 2 bytes                  *)
(*    ^  U+00C9 E-acute        capital letter, 2 bytes, lower-cases to ~   *)
(*    %  U+212A KELVIN SIGN    capital letter, 3 bytes, lower-cases to k   *)
(*    $  U+0130 I with dot     capital letter, 2 bytes, lower-cases to a   *)
(*                             two-character, 3-byte sequence              *)
(*    @  U+00BD one half       numeric but not an ASCII digit, 2 bytes     *)
(*    `  U+20AC euro sign      neither letter, digit, blank nor ASCII      *)
(*                             punctuation, 3 bytes                        *)
(*    #  U+1F600 emoji         like the euro sign, 4 bytes                 *)
(*    |  U+3000 ideographic sp white space, 3 bytes                        *)
(*    \f U+0001 control char   like the euro sign, but a single byte (the  *)
(*                             model symbol is the form-feed character)    *)
(* A backslash is itself: one more ignorable punctuation character (it is  *)
(* in the alphabet because other languages escape quotes with it).         *)
(*                                                                         *)
(* Everything the lexer asks about a character is a predicate below, with  *)
(* the meaning of Rust's char methods it uses (is_whitespace,              *)
(* is_alphabetic, is_numeric, is_ascii_alphanumeric, is_ascii_punctuation, *)
(* is_uppercase, to_lowercase).                                            *)
(***************************************************************************)
EXTENDS Integers, Sequences

CharAt(s, i) == IF i < 1 \/ i > Len(s) THEN "" ELSE SubSeq(s, i, i)          \* "" outside the text
Slice(s, a, b) == IF a > Len(s) \/ b < a THEN "" ELSE SubSeq(s, a, IF b > Len(s) THEN Len(s) ELSE b)   \* clipped SubSeq

LowerLetters == {"a","b","c","d","e","f","g","h","i","j","k","l","m","n","o","p","q","r","s","t","u","v","w","x","y","z"}
UpperLetters == {"A","B","C","D","E","F","G","H","I","J","K","L","M","N","O","P","Q","R","S","T","U","V","W","X","Y","Z"}
Digits       == {"0","1","2","3","4","5","6","7","8","9"}

Width(c) == CASE c \in {"~", "^", "$", "@"} -> 2
              [] c \in {"%", "`", "|"} -> 3
              [] c = "#" -> 4
              [] OTHER -> 1

IsNewline(c)    == c = "\n"
IsBlank(c)      == c \in {" ", "\t", "\r", "|"}                 \* white space other than newline
IsWhitespace(c) == IsBlank(c) \/ IsNewline(c)
IsAlphabetic(c) == c \in LowerLetters \cup UpperLetters \cup {"~", "^", "%", "$"}
IsUppercase(c)  == c \in UpperLetters \cup {"^", "%", "$"}
IsLowercase(c)  == c \in LowerLetters \cup {"~"}
IsAsciiDigit(c) == c \in Digits
IsNumeric(c)    == c \in Digits \cup {"@"}
IsAsciiAlnum(c) == c \in LowerLetters \cup UpperLetters \cup Digits
(* ASCII punctuation that the model alphabet uses as itself *)
AsciiPunct      == {"!", "?", ";", ":", "=", ".", ",", "&", "+", "-", "*", "/", "<", ">", "\"", "(", ")", "_", "'", "[", "]", "{", "}", "\\"}
IsIgnorablePunct(c) == c \in AsciiPunct \ {"_", "'"}
IsWordChar(c)   == ~(IsWhitespace(c) \/ IsIgnorablePunct(c))      \* what `is_word` accepts

UpperS == "ABCDEFGHIJKLMNOPQRSTUVWXYZ"
LowerS == "abcdefghijklmnopqrstuvwxyz"
LowerOf(c) ==
  CASE c \in UpperLetters -> CharAt(LowerS, CHOOSE i \in 1..26 : CharAt(UpperS, i) = c)
    [] c = "^" -> "~"
    [] c = "%" -> "k"
    [] OTHER -> c              \* `$` lower-cases to a sequence that occurs in no keyword
RECURSIVE Lower(_)
Lower(s) == IF s = "" THEN "" ELSE LowerOf(CharAt(s, 1)) \o Lower(SubSeq(s, 2, Len(s)))

RECURSIVE ByteLen(_)
ByteLen(s) == IF s = "" THEN 0 ELSE Width(CharAt(s, 1)) + ByteLen(SubSeq(s, 2, Len(s)))

AllChars(s, P(_)) == \A i \in 1..Len(s) : P(CharAt(s, i))
=============================================================================
