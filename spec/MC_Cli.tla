------------------------------- MODULE MC_Cli -------------------------------
(* Model checking of Cli.tla over all parameter shapes with at most two output lines / diagnostics. *)
EXTENDS Cli

MCParams ==
  { [usage |-> "bad", file |-> "ok", cmd |-> "exec", lib |-> [k |-> "tree", dump |-> ""]] }
  \cup { [usage |-> "ok", file |-> "missing", cmd |-> c, lib |-> [k |-> "tree", dump |-> ""]] : c \in {"exec", "lint", "parse"} }
  \cup { [usage |-> "ok", file |-> "ok", cmd |-> c, lib |-> [k |-> "parse_error", msg |-> "Parse error (line 1): x"]] : c \in {"exec", "lint", "parse"} }
  \cup { [usage |-> "ok", file |-> "ok", cmd |-> "exec", lib |-> [k |-> "run", out |-> o, err |-> e]]
         : o \in {<<>>, <<"a">>, <<"a", "">>, <<"", "b">>}, e \in {<<>>, <<"boom">>} }
  \cup { [usage |-> "ok", file |-> "ok", cmd |-> "lint", lib |-> [k |-> "diags", ds |-> d]]
         : d \in {<<>>, <<[line |-> 3, issue |-> "i1", suggs |-> <<"s1">>]>>,
                  <<[line |-> 1, issue |-> "i1", suggs |-> <<>>], [line |-> 12, issue |-> "i2", suggs |-> <<"s1", "s2">>]>>} }
  \cup { [usage |-> "ok", file |-> "ok", cmd |-> "parse", lib |-> [k |-> "tree", dump |-> "Program {}"]] }

FinalAgrees ==      \* the functional form used for trace validation is the machine's final state
  phase = "done" /\ P.usage = "ok" /\ P.file = "ok" => stdout = Final(P).stdout /\ stderr = Final(P).stderr /\ (code # 0) = Final(P).nonzero
=============================================================================
