CONSTANTS
  MaxSteps = 3000
  Family = "AR"
  Tier = "thorough"
INIT Init
NEXT Next
INVARIANT Inv
INVARIANT Emit
PROPERTY StepOK
CHECK_DEADLOCK FALSE
