CONSTANTS
  MaxSteps = 3000
  Family = "cf"
  Tier = "thorough"
INIT Init
NEXT Next
INVARIANT Emit
CHECK_DEADLOCK FALSE
