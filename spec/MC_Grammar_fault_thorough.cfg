CONSTANTS
  MaxSteps = 100
  Family = "fault"
  Tier = "thorough"
INIT Init
NEXT Next
INVARIANT Emit
CHECK_DEADLOCK FALSE
