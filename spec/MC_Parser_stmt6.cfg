CONSTANTS
  SuffixUsesStaleLine = FALSE
  Alphabet <- SoupStmt
  MaxLen = 6
INIT Init
NEXT Next
INVARIANT ParserTotal
INVARIANT Emit
CHECK_DEADLOCK FALSE
