------------------------------- MODULE Tokens -------------------------------
(***************************************************************************)
(* Token kinds and the complete keyword / alias table of the lexer         *)
(* (transcribed from KEYWORDS in src/frontend/lexer.rs: 128 spellings of 58  *)
(* kinds).  Kind names are the lower-cased names of the TokenType variants;*)
(* "prefix" is CommonVariablePrefix.  Keyword(w) expects w lower-cased.    *)
(***************************************************************************)
EXTENDS Sequences

KeywordKind(w) ==
  CASE w \in {"mysterious"} -> "mysterious"
  [] w \in {"null", "nothing", "nowhere", "nobody", "gone"} -> "null"
  [] w \in {"true", "right", "yes", "ok"} -> "true"
  [] w \in {"false", "wrong", "no", "lies"} -> "false"
  [] w \in {"empty", "silent", "silence"} -> "empty"
  [] w \in {"it", "he", "she", "him", "her", "they", "them", "ze", "hir", "zie", "zir", "xe", "xem", "ve", "ver"} -> "pronoun"
  [] w \in {"plus"} -> "plus"
  [] w \in {"minus", "without"} -> "minus"
  [] w \in {"times", "of"} -> "multiply"
  [] w \in {"over", "between"} -> "divide"
  [] w \in {"in", "into"} -> "into"
  [] w \in {"is", "are", "was", "were"} -> "is"
  [] w \in {"isnt", "isn't", "aint", "ain't", "arent", "aren't", "wasnt", "wasn't", "werent", "weren't"} -> "isnt"
  [] w \in {"says", "said"} -> "says"
  [] w \in {"higher", "greater", "bigger", "stronger"} -> "bigger"
  [] w \in {"lower", "less", "smaller", "weaker"} -> "smaller"
  [] w \in {"high", "great", "big", "strong"} -> "big"
  [] w \in {"low", "little", "small", "weak"} -> "small"
  [] w \in {"shout", "whisper", "scream"} -> "sayalias"
  [] w \in {"cut", "split", "shatter"} -> "cut"
  [] w \in {"join", "unite"} -> "join"
  [] w \in {"cast", "burn"} -> "cast"
  [] w \in {"round", "around"} -> "round"
  [] w \in {"takes", "wants"} -> "takes"
  [] w \in {"return", "give", "send"} -> "return"
  [] w \in {"with"} -> "with"
  [] w \in {"put"} -> "put"
  [] w \in {"let"} -> "let"
  [] w \in {"be"} -> "be"
  [] w \in {"and"} -> "and"
  [] w \in {"or"} -> "or"
  [] w \in {"nor"} -> "nor"
  [] w \in {"not"} -> "not"
  [] w \in {"as"} -> "as"
  [] w \in {"than"} -> "than"
  [] w \in {"if"} -> "if"
  [] w \in {"else"} -> "else"
  [] w \in {"while"} -> "while"
  [] w \in {"until"} -> "until"
  [] w \in {"build"} -> "build"
  [] w \in {"knock"} -> "knock"
  [] w \in {"up"} -> "up"
  [] w \in {"down"} -> "down"
  [] w \in {"say"} -> "say"
  [] w \in {"listen"} -> "listen"
  [] w \in {"to"} -> "to"
  [] w \in {"turn"} -> "turn"
  [] w \in {"continue"} -> "continue"
  [] w \in {"break"} -> "break"
  [] w \in {"take"} -> "take"
  [] w \in {"top"} -> "top"
  [] w \in {"rock"} -> "rock"
  [] w \in {"roll"} -> "roll"
  [] w \in {"at"} -> "at"
  [] w \in {"like"} -> "like"
  [] w \in {"taking"} -> "taking"
  [] w \in {"back"} -> "back"
  [] w \in {"a", "an", "the", "my", "your", "our"} -> "prefix"
  [] OTHER -> "word"

KeywordSpellings == {"a", "ain't", "aint", "an", "and", "are", "aren't", "arent", "around", "as", "at", "back", "be", "between", "big", "bigger", "break", "build", "burn", "cast", "continue", "cut", "down", "else", "empty", "false", "give", "gone", "great", "greater", "he", "her", "high", "higher", "him", "hir", "if", "in", "into", "is", "isn't", "isnt", "it", "join", "knock", "less", "let", "lies", "like", "listen", "little", "low", "lower", "minus", "my", "mysterious", "no", "nobody", "nor", "not", "nothing", "nowhere", "null", "of", "ok", "or", "our", "over", "plus", "put", "return", "right", "rock", "roll", "round", "said", "say", "says", "scream", "send", "shatter", "she", "shout", "silence", "silent", "small", "smaller", "split", "strong", "stronger", "take", "takes", "taking", "than", "the", "them", "they", "times", "to", "top", "true", "turn", "unite", "until", "up", "ve", "ver", "wants", "was", "wasn't", "wasnt", "weak", "weaker", "were", "weren't", "werent", "while", "whisper", "with", "without", "wrong", "xe", "xem", "yes", "your", "ze", "zie", "zir"}

IsKeyword(w) == w \in KeywordSpellings

(* kinds that are never keywords *)
OtherKinds == {"word", "string", "number", "apos_s", "apos_re", "apos_n", "ampersand", "comma", "dot", "newline",
               "comment", "error", "greater", "greatereq", "less", "lesseq"}

(* aliases per kind, used by the grammar renderer *)
Aliases == [
  k_mysterious |-> <<"mysterious">>,
  k_null |-> <<"null", "nothing", "nowhere", "nobody", "gone">>,
  k_true |-> <<"true", "right", "yes", "ok">>,
  k_false |-> <<"false", "wrong", "no", "lies">>,
  k_empty |-> <<"empty", "silent", "silence">>,
  k_pronoun |-> <<"it", "he", "she", "him", "her", "they", "them", "ze", "hir", "zie", "zir", "xe", "xem", "ve", "ver">>,
  k_plus |-> <<"plus">>,
  k_minus |-> <<"minus", "without">>,
  k_multiply |-> <<"times", "of">>,
  k_divide |-> <<"over", "between">>,
  k_into |-> <<"in", "into">>,
  k_is |-> <<"is", "are", "was", "were">>,
  k_isnt |-> <<"isnt", "isn't", "aint", "ain't", "arent", "aren't", "wasnt", "wasn't", "werent", "weren't">>,
  k_says |-> <<"says", "said">>,
  k_bigger |-> <<"higher", "greater", "bigger", "stronger">>,
  k_smaller |-> <<"lower", "less", "smaller", "weaker">>,
  k_big |-> <<"high", "great", "big", "strong">>,
  k_small |-> <<"low", "little", "small", "weak">>,
  k_sayalias |-> <<"shout", "whisper", "scream">>,
  k_cut |-> <<"cut", "split", "shatter">>,
  k_join |-> <<"join", "unite">>,
  k_cast |-> <<"cast", "burn">>,
  k_round |-> <<"round", "around">>,
  k_takes |-> <<"takes", "wants">>,
  k_return |-> <<"return", "give", "send">>,
  k_with |-> <<"with">>,
  k_put |-> <<"put">>,
  k_let |-> <<"let">>,
  k_be |-> <<"be">>,
  k_and |-> <<"and">>,
  k_or |-> <<"or">>,
  k_nor |-> <<"nor">>,
  k_not |-> <<"not">>,
  k_as |-> <<"as">>,
  k_than |-> <<"than">>,
  k_if |-> <<"if">>,
  k_else |-> <<"else">>,
  k_while |-> <<"while">>,
  k_until |-> <<"until">>,
  k_build |-> <<"build">>,
  k_knock |-> <<"knock">>,
  k_up |-> <<"up">>,
  k_down |-> <<"down">>,
  k_say |-> <<"say">>,
  k_listen |-> <<"listen">>,
  k_to |-> <<"to">>,
  k_turn |-> <<"turn">>,
  k_continue |-> <<"continue">>,
  k_break |-> <<"break">>,
  k_take |-> <<"take">>,
  k_top |-> <<"top">>,
  k_rock |-> <<"rock">>,
  k_roll |-> <<"roll">>,
  k_at |-> <<"at">>,
  k_like |-> <<"like">>,
  k_taking |-> <<"taking">>,
  k_back |-> <<"back">>,
  k_prefix |-> <<"a", "an", "the", "my", "your", "our">>
]
=============================================================================
