CONSTANTS
  MaxSteps = 3000
  Family = "ILL"
  Tier = "quick"
INIT Init
NEXT Next
INVARIANT Inv
INVARIANT Emit
CHECK_DEADLOCK FALSE
