--------------------------------- MODULE Cli ---------------------------------
(***************************************************************************)
(* Process-level model of `rrss <command> <file>` (src/cli, src/lib.rs,    *)
(* src/main.rs) for C20: what reaches standard output, standard error and  *)
(* the exit status, given what the LIBRARY does with the same file.        *)
(*                                                                         *)
(* The run is a parameter record P:                                        *)
(*   usage   "ok" | "bad" (unknown sub-command, missing or extra argument) *)
(*   file    "ok" | "missing"                                              *)
(*   cmd     "exec" | "lint" | "parse"                                     *)
(*   lib     what the library returns for the file's text:                 *)
(*             [k |-> "parse_error", msg]                                  *)
(*             [k |-> "run", out (sequence of lines written), err (<<>> or *)
(*                  <<msg>>)]                          (exec)              *)
(*             [k |-> "diags", ds (sequence of [line, issue, suggs])]      *)
(*                                                     (lint)              *)
(*             [k |-> "tree", dump]                    (parse)             *)
(* The machine writes stdout / stderr chunk by chunk; `merged` is what a   *)
(* reader of both streams on one pipe sees.                                *)
(***************************************************************************)
EXTENDS CliFormat, TLC

CONSTANT Params            \* the set of runs to explore

VARIABLES P, phase, stdout, stderr, merged, code, i
vars == <<P, phase, stdout, stderr, merged, code, i>>

Init == P \in Params /\ phase = "start" /\ stdout = "" /\ stderr = "" /\ merged = "" /\ code = -1 /\ i = 1

ToOut(s) == stdout' = stdout \o s /\ merged' = merged \o s /\ UNCHANGED stderr
ToErr(s) == stderr' = stderr \o s /\ merged' = merged \o s /\ UNCHANGED stdout

BadUsage == /\ phase = "start" /\ P.usage = "bad"
            /\ \E s \in {"usage message"} : ToErr(s)         \* the wording is clap's; only that it is not standard output matters
            /\ phase' = "done" /\ code' = 2 /\ UNCHANGED i
MissingFile == /\ phase = "start" /\ P.usage = "ok" /\ P.file = "missing"
               /\ ToErr("io error") /\ phase' = "done" /\ code' = 1 /\ UNCHANGED i
Open == /\ phase = "start" /\ P.usage = "ok" /\ P.file = "ok"
        /\ phase' = "loaded" /\ UNCHANGED <<stdout, stderr, merged, code, i>>
ParseFail == /\ phase = "loaded" /\ P.lib.k = "parse_error"
             /\ ToErr("Parse error: " \o P.lib.msg \o NL) /\ phase' = "done" /\ code' = 0 /\ UNCHANGED i
SayLine == /\ phase = "loaded" /\ P.lib.k = "run" /\ i <= Len(P.lib.out)
           /\ ToOut(P.lib.out[i] \o NL) /\ i' = i + 1 /\ UNCHANGED <<phase, code>>
RunEnds == /\ phase = "loaded" /\ P.lib.k = "run" /\ i > Len(P.lib.out)
           /\ IF P.lib.err = <<>> THEN UNCHANGED <<stdout, stderr, merged>> ELSE ToErr("Runtime error: " \o P.lib.err[1] \o NL)
           /\ phase' = "done" /\ code' = 0 /\ UNCHANGED i
LintLine == /\ phase = "loaded" /\ P.lib.k = "diags" /\ i <= Len(P.lib.ds)
            /\ ToOut(DiagText(P.lib.ds[i])) /\ i' = i + 1 /\ UNCHANGED <<phase, code>>
LintEnds == /\ phase = "loaded" /\ P.lib.k = "diags" /\ i > Len(P.lib.ds)
            /\ IF P.lib.ds = <<>> THEN ToOut("No lint issues found :)") ELSE UNCHANGED <<stdout, stderr, merged>>
            /\ phase' = "done" /\ code' = 0 /\ UNCHANGED i
TreeDump == /\ phase = "loaded" /\ P.lib.k = "tree"
            /\ ToOut(P.lib.dump \o NL) /\ phase' = "done" /\ code' = 0 /\ UNCHANGED i

Next == UNCHANGED P /\ (BadUsage \/ MissingFile \/ Open \/ ParseFail \/ SayLine \/ RunEnds \/ LintLine \/ LintEnds \/ TreeDump)
Spec == Init /\ [][Next]_vars

-----------------------------------------------------------------------------
(* C20 as invariants of the machine *)
ErrorsNotOnStdout == P.usage = "bad" \/ P.file = "missing" \/ (P.usage = "ok" /\ P.lib.k = "parse_error") => stdout = ""
NonZeroOnMissingFileOrBadUsage == phase = "done" /\ (P.usage = "bad" \/ P.file = "missing") => code # 0
(* in the merged stream no standard-output byte follows the first standard-error byte *)
ErrorAfterOutput == stderr # "" => merged = stdout \o stderr
NothingAfterExit == [][phase = "done" => UNCHANGED vars]_vars
PrefixedErrors == phase = "done" /\ P.usage = "ok" /\ P.file = "ok" /\ stderr # "" =>
                    \/ (P.lib.k = "parse_error" /\ SubSeq(stderr, 1, 13) = "Parse error: ")
                    \/ (P.lib.k = "run" /\ SubSeq(stderr, 1, 15) = "Runtime error: ")
StdoutIsLibraryOutput ==
  phase = "done" /\ P.usage = "ok" /\ P.file = "ok" /\ P.lib.k = "run" =>
     LET RECURSIVE Cat(_) Cat(ls) == IF ls = <<>> THEN "" ELSE Head(ls) \o NL \o Cat(Tail(ls)) IN stdout = Cat(P.lib.out)

=============================================================================
