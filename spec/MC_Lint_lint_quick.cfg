CONSTANTS
  MaxSteps = 3000
  Kind = "lint"
  Tier = "quick"
INIT Init
NEXT Next
INVARIANT FoldSound
INVARIANT ReportShape
INVARIANT WalkShape
INVARIANT Emit
CHECK_DEADLOCK FALSE
