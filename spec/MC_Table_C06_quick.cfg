CONSTANT Tier = "quick"
CONSTANT Kinds = {"index","store","rock","roll","say","abin"}
INIT Init
NEXT Next
INVARIANT TotalResult
INVARIANT LawsHold
INVARIANT ArrayLaws
INVARIANT MutationLaws
INVARIANT Emit
CHECK_DEADLOCK FALSE
