CONSTANT Params <- MCParams
SPECIFICATION Spec
INVARIANT ErrorsNotOnStdout
INVARIANT NonZeroOnMissingFileOrBadUsage
INVARIANT ErrorAfterOutput
INVARIANT PrefixedErrors
INVARIANT StdoutIsLibraryOutput
INVARIANT FinalAgrees
PROPERTY NothingAfterExit
CHECK_DEADLOCK FALSE
