---------------------------- MODULE ProgFamilies ----------------------------
(***************************************************************************)
(* Bounded program families (syntax trees of Interp.tla) shared by the     *)
(* interpreter instance MC_Interp (trees built directly) and the grammar   *)
(* instance MC_Grammar (the same trees rendered to text and parsed by the  *)
(* real front end).  Family definitions take a dummy parameter: TLC        *)
(* evaluates zero-arity constant definitions once per worker at start-up.  *)
(***************************************************************************)
EXTENDS Interp, SequencesExt

CONSTANT Tier

-----------------------------------------------------------------------------
(* line numbering: statements are numbered in pre-order from 1 *)
RECURSIVE NumSeq(_, _)
RECURSIVE NumStmt(_, _)
NumStmt(s, n) ==       \* [s |-> numbered statement, n |-> next free number]
  LET s1 == [s EXCEPT !.line = n] IN
  CASE s.s = "if" -> LET t == NumSeq(s.th, n + 1) e == NumSeq(s.el, t.n) IN
                     [s |-> [s1 EXCEPT !.th = t.ss, !.el = e.ss], n |-> e.n]
    [] s.s \in {"while", "until", "func"} -> LET b == NumSeq(s.body, n + 1) IN [s |-> [s1 EXCEPT !.body = b.ss], n |-> b.n]
    [] OTHER -> [s |-> s1, n |-> n + 1]
NumSeq(ss, n) ==       \* [ss, n]
  IF ss = <<>> THEN [ss |-> <<>>, n |-> n]
  ELSE LET h == NumStmt(Head(ss), n) t == NumSeq(Tail(ss), h.n) IN [ss |-> <<h.s>> \o t.ss, n |-> t.n]
RECURSIVE NumBlocks(_, _)
NumBlocks(bs, n) == IF bs = <<>> THEN <<>> ELSE LET h == NumSeq(Head(bs), n) IN <<h.ss>> \o NumBlocks(Tail(bs), h.n)
Number(bs) == NumBlocks(bs, 1)

-----------------------------------------------------------------------------
(* shorthands *)
N(k) == Lit(IntV(k))
S(t) == Lit(Str(t))
Put(e, n) == SAssign(0, Var(n), "none", <<e>>)
Say(e) == SSay(0, e)
SayS(t) == Say(S(t))
Lt(a, b) == Bin("lt", a, <<b>>)
Ge(a, b) == Bin("ge", a, <<b>>)
Eq(a, b) == Bin("eq", a, <<b>>)
PlusE(a, b) == Bin("plus", a, <<b>>)

Seqs1(S1) == { <<a>> : a \in S1 }
Seqs2(S1, S2) == { <<a, b>> : a \in S1, b \in S2 }

-----------------------------------------------------------------------------
(* CF: control flow.  Loops are driven by a counter that is built up as    *)
(* the first statement of the body, so every program terminates.           *)
CFAtoms == { SayS("a"), SayS("b"), SBreak(0), SContinue(0) }
CFConds(c) == { Eq(Var(c), N(1)), Lt(Var(c), N(2)), Lit(Bool(TRUE)), Lit(Null), S(""), Lit(Myst), N(0), Var("arr"),
                Lit(Tiny(1, TinyText)), Lit(Tiny(-1, "0.001")), Lit(NaN), Lit(NZero) }
CFCondsQ(c) == { Eq(Var(c), N(1)), Lit(Bool(TRUE)), Lit(Null), S(""), Lit(Tiny(1, TinyText)) }

CFIf(c, B1, B2) == { SIf(0, cd, t, TRUE, e) : cd \in c, t \in B1, e \in B2 } \cup { SIf(0, cd, t, FALSE, <<>>) : cd \in c, t \in B1 }
CFLoop(ctr, bound, B) ==
     { SWhile(0, Lt(Var(ctr), N(bound)), <<SInc(0, Var(ctr), 1)>> \o b) : b \in B }
\cup { SUntil(0, Ge(Var(ctr), N(bound)), <<SInc(0, Var(ctr), 1)>> \o b) : b \in B }

B0 == {<<>>} \cup Seqs1(CFAtoms)                                   \* at most one atom
B0w == B0 \cup Seqs2(CFAtoms, CFAtoms)
(* one compound with an optional atom before / after *)
Around(C) == Seqs1(C) \cup Seqs2(CFAtoms, C) \cup Seqs2(C, CFAtoms)

CFIf1(c) == CFIf(IF Tier = "quick" THEN CFCondsQ(c) ELSE CFConds(c), B0, B0)
CFBody1(c) == B0w \cup Around(CFIf1(c))
CFInner(z) == CFLoop("j", 2, B0 \cup Seqs1(CFIf(CFCondsQ("j"), Seqs1({SBreak(0), SContinue(0), SayS("c")}), {<<>>})))
CFBody2(c) == Around({ s \in CFIf(CFCondsQ(c), Seqs1(CFIf(CFCondsQ(c), Seqs1(CFAtoms), B0)), B0) : TRUE })
              \cup { <<Put(N(0), "j"), l>> : l \in CFInner(0) } \cup { <<Put(N(0), "j"), l, a>> : l \in CFInner(0), a \in CFAtoms }

(* loops driven by their CONDITION: "while/until re-evaluate their condition before every iteration" is observable when the       *)
(* condition itself has the effect (a roll, a call), whatever the body is - also when it is empty                                  *)
CFStep == SFunc(0, "fun", <<"p">>, <<SInc(0, Var("k"), 1), SReturn(0, Lt(Var("k"), Var("p")))>>)
CFCondLoops == {
  << <<SRock(0, Var("q"), <<N(1), N(2), N(3)>>), SWhile(0, RollE(Var("q")), <<>>), Say(Var("q")), SayS("end")>> >>,
  << <<SRock(0, Var("q"), <<N(1), N(2), N(3)>>), SUntil(0, Un("not", RollE(Var("q"))), <<>>), Say(Var("q")), SayS("end")>> >>,
  << <<SRock(0, Var("q"), <<N(1), N(2), N(3)>>), SWhile(0, RollE(Var("q")), <<SayS("in")>>), Say(Var("q")), SayS("end")>> >>,
  << <<SRock(0, Var("q"), <<N(0), N(2)>>), SWhile(0, RollE(Var("q")), <<>>), Say(Var("q")), SUntil(0, RollE(Var("q")), <<>>), Say(Var("q"))>> >>,
  << <<CFStep>>, <<Put(N(0), "k"), SWhile(0, Call("fun", <<N(3)>>), <<>>), Say(Var("k")), SayS("end")>> >>,
  << <<CFStep>>, <<Put(N(0), "k"), SUntil(0, Un("not", Call("fun", <<N(3)>>)), <<>>), Say(Var("k")), SayS("end")>> >>,
  << <<CFStep>>, <<Put(N(0), "k"), Put(N(0), "i"), SWhile(0, Lt(Var("i"), N(2)), <<SInc(0, Var("i"), 1), SWhile(0, Call("fun", <<N(2)>>), <<>>), Say(Var("k")), Put(N(0), "k")>>), SayS("end")>> >>,
  << <<CFStep>>, <<Put(N(5), "k"), SWhile(0, Call("fun", <<N(3)>>), <<>>), Say(Var("k")), SayS("end")>> >>
}

(* (family definitions take a dummy parameter: TLC evaluates zero-arity constant definitions once per worker at start-up) *)
CFPrograms(z) ==
  LET bodies == CFBody1("i") \cup (IF Tier = "quick" THEN {} ELSE CFBody2("i"))
      loops == CFLoop("i", 3, bodies)
  IN { << <<SRock(0, Var("arr"), <<>>), Put(N(0), "i"), l, SayS("end")>> >> : l \in loops }
     \cup { << <<SRock(0, Var("arr"), <<>>), Put(N(1), "i"), s, SayS("end")>> >> : s \in CFIf(CFConds("i"), B0w, B0w) }
     \cup { << <<SayS("a"), a>>, <<SayS("b"), b>>, <<SayS("end")>> >> : a, b \in { SBreak(0), SContinue(0), SReturn(0, N(1)), SayS("x") } }
     \cup CFCondLoops

-----------------------------------------------------------------------------
(* FN: functions, scopes, pronouns *)
Ret(e) == SReturn(0, e)
Minus1(e) == Bin("minus", e, <<N(1)>>)
FNBodies(f, p) == {
  <<Ret(Var(p))>>,
  <<>>,
  <<SayS("f")>>,
  <<SIf(0, Eq(Var(p), N(1)), <<Ret(S("one"))>>, FALSE, <<>>), Ret(S("other"))>>,
  <<SIf(0, Eq(Var(p), N(1)), <<Ret(S("one"))>>, TRUE, <<Ret(S("two"))>>), Ret(S("never"))>>,
  <<Put(N(0), "k"), SWhile(0, Lt(Var("k"), N(3)), <<SInc(0, Var("k"), 1), SIf(0, Eq(Var("k"), Var(p)), <<Ret(Var("k"))>>, FALSE, <<>>)>>), Ret(S("none"))>>,
  <<SUntil(0, Ge(Var(p), N(2)), <<SInc(0, Var(p), 1), Ret(Var(p))>>), Ret(S("after"))>>,
  <<Put(PlusE(Var(p), N(1)), "loc"), Ret(Var("loc"))>>,
  <<Put(N(9), "g"), Ret(Var("g"))>>,
  <<Put(N(7), p), Ret(Var(p))>>,
  <<SIf(0, Lt(Var(p), N(1)), <<Ret(N(0))>>, FALSE, <<>>), Put(Minus1(Var(p)), "t"), Ret(PlusE(Call(f, <<Var("t")>>), N(1)))>>,
  <<SRock(0, Var(p), <<N(5)>>), Ret(Var(p))>>,
  <<Ret(N(1)), SayS("unreachable")>>,
  <<SBreak(0), SayS("unreachable")>>,
  <<Put(N(5), "x"), Ret(Var("x"))>>,
  <<SayS("in"), Say(Pro)>>,                                  \* the callee sees the caller's pronoun referent
  <<Put(Var(p), "x"), SIf(0, Lit(Bool(TRUE)), <<Put(N(2), "x"), Put(N(3), "inner")>>, FALSE, <<>>), Ret(Var("x"))>>,
  <<SWhile(0, Lit(Bool(TRUE)), <<SWhile(0, Lit(Bool(TRUE)), <<Ret(S("deep"))>>)>>), Ret(S("no"))>>,
  \* writes through the pronoun reach the innermost variable of that name (the parameter, not a global it shadows)
  <<Say(Var(p)), SInc(0, Pro, 1), Say(Var(p)), Ret(Var(p))>>,
  <<Say(Var(p)), SAssign(0, Pro, "none", <<N(42)>>), Ret(Var(p))>>,
  <<Say(Var(p)), SRock(0, Pro, <<N(8)>>), SAssign(0, Idx(Pro, S("key")), "none", <<N(1)>>), SRoll(0, Pro, Var("got")), Ret(Var(p))>>,
  <<SIf(0, Lt(Var(p), N(2)), <<Put(PlusE(Var(p), N(1)), "t"), Say(Call(f, <<Var("t")>>))>>, FALSE, <<>>), Say(Var(p)), SInc(0, Pro, 10), Ret(Var(p))>>,
  \* the pronoun at function entry, before the body names anything: the caller's last-named variable, looked up innermost first
  \* (so it is the parameter when the caller's variable has the parameter's name)
  <<SInc(0, Pro, 1), Ret(Var(p))>>,
  <<Say(Pro), Ret(Pro)>>
}
FNMains(f) == {
  <<Put(N(1), "x"), Put(Call(f, <<Var("x")>>), "r"), Say(Var("r")), Say(Var("x"))>>,
  <<Put(N(2), "x"), Put(N(100), "p"), Put(N(50), "g"), Say(Call(f, <<Var("x")>>)), Say(Var("p")), Say(Var("g")), Say(Var("x"))>>,
  <<Put(N(1), "x"), SCall(0, f, <<Var("x")>>), Say(Pro)>>,
  <<Put(N(1), "x"), Put(Call(f, <<Var("x")>>), "r"), Say(Pro)>>,
  <<SRock(0, Var("x"), <<N(1), N(2)>>), Put(Call(f, <<Var("x")>>), "r"), Say(Var("r")), Say(Var("x")), SRoll(0, Var("x"), Var("h")), Say(Var("h"))>>,
  <<Put(N(3), "x"), Say(Call(f, <<Var("x")>>)), Say(Var("k"))>>,
  <<Put(N(3), "x"), Say(Call(f, <<Var("x")>>)), Say(Var("loc"))>>,
  <<Put(N(0), "i"), SWhile(0, Lt(Var("i"), N(2)), <<SInc(0, Var("i"), 1), Put(Call(f, <<Var("i")>>), "r"), Say(Var("r"))>>), Say(Var("i"))>>,
  <<Say(Call(f, <<N(1), N(2)>>))>>,
  <<Say(Call(f, <<>>))>>,
  <<Put(N(1), "v"), Say(Call("v", <<N(1)>>))>>,
  <<Say(Var("nope"))>>,
  <<Say(Var(f))>>,
  <<Put(N(2), "x"), SIf(0, Lit(Bool(TRUE)), <<Put(Call(f, <<Var("x")>>), "t"), Say(Var("t"))>>, FALSE, <<>>), Say(Var("t"))>>,
  \* the caller's variable has the parameter's name
  <<Put(N(1), "p"), Put(Call(f, <<Var("p")>>), "r"), Say(Var("r")), Say(Var("p"))>>,
  <<Put(N(1), "p"), Put(N(5), "x"), Put(Call(f, <<PlusE(Var("x"), Var("p"))>>), "r"), Say(Var("r")), Say(Var("p")), Say(Var("x"))>>
}
FN2 == {  \* two parameters: binding order, left-to-right evaluation, by-value, duplicates, shadowing of the function's own name
  << <<SFunc(0, "pair", <<"a", "b">>, <<Ret(Bin("minus", Var("a"), <<Var("b")>>))>>)>>,
     <<SRock(0, Var("q"), <<N(10), N(3)>>), Say(Call("pair", <<RollE(Var("q")), RollE(Var("q"))>>)), Say(Var("q"))>> >>,
  << <<SFunc(0, "pair", <<"a", "b">>, <<Ret(PlusE(PlusE(Var("a"), S("-")), Var("b")))>>)>>,
     <<Put(S("x"), "a"), Put(S("y"), "b"), Say(Call("pair", <<Var("b"), Var("a")>>)), Say(Var("a")), Say(Var("b"))>> >>,
  << <<SFunc(0, "dup", <<"a", "a">>, <<Ret(Var("a"))>>)>>, <<SayS("before"), Say(Call("dup", <<N(1), N(2)>>))>> >>,
  << <<SFunc(0, "pair", <<"a", "b">>, <<Put(N(0), "a"), Put(N(0), "b"), Ret(N(1))>>)>>,
     <<Put(N(5), "a"), Say(Call("pair", <<Var("a"), Var("a")>>)), Say(Var("a"))>> >>,
  << <<SFunc(0, "gcd", <<"mm", "nn">>, <<SIf(0, Eq(Var("nn"), N(0)), <<Ret(Var("mm"))>>, FALSE, <<>>),
                                         Put(Bin("minus", Var("mm"), <<Var("nn")>>), "d"),
                                         Ret(Call("gcd", <<Var("nn"), Var("d")>>))>>)>>,
     <<Say(Call("gcd", <<N(4), N(2)>>))>> >>,
  << <<SFunc(0, "ff", <<"a">>, <<Ret(Var("a"))>>)>>, <<SFunc(0, "ff", <<"b">>, <<Ret(N(0))>>)>> >>,
  \* a name is looked up innermost first whatever it is looked up for: a parameter or local variable that has the name of a
  \* function defined further out hides it, so calling that name is calling a non-function
  << <<SFunc(0, "helper", <<"a">>, <<Ret(PlusE(Var("a"), Var("a")))>>)>>,
     <<SFunc(0, "outer", <<"helper", "b">>, <<Ret(Call("helper", <<Var("b")>>))>>)>>,
     <<Say(Call("helper", <<N(2)>>)), Say(Call("outer", <<N(1), N(4)>>)), SayS("unreachable")>> >>,
  << <<SFunc(0, "helper", <<"a">>, <<Ret(PlusE(Var("a"), Var("a")))>>)>>,
     <<SFunc(0, "loc", <<"b">>, <<Put(N(1), "helper"), Say(Var("helper")), Ret(Call("helper", <<Var("b")>>))>>)>>,
     <<Say(Call("loc", <<N(4)>>)), SayS("unreachable")>> >>,
  << <<SFunc(0, "helper", <<"a">>, <<Ret(PlusE(Var("a"), Var("a")))>>)>>,
     <<SIf(0, Lit(Bool(TRUE)), <<Put(N(1), "helper"), Say(Call("helper", <<N(3)>>))>>, FALSE, <<>>), SayS("unreachable")>> >>,
  << <<SFunc(0, "helper", <<"a">>, <<Ret(PlusE(Var("a"), Var("a")))>>)>>,          \* the same right after a call of that function
     <<Say(Call("helper", <<N(2)>>)), SIf(0, Lit(Bool(TRUE)), <<Put(N(1), "helper"), Say(Call("helper", <<N(3)>>))>>, FALSE, <<>>), SayS("unreachable")>> >>,
  << <<SFunc(0, "helper", <<"a">>, <<Ret(PlusE(Var("a"), Var("a")))>>)>>,
     <<SFunc(0, "outer", <<"helper">>, <<Ret(Call("helper", <<N(1)>>))>>)>>,
     <<Say(Call("outer", <<Call("helper", <<N(2)>>)>>)), SayS("unreachable")>> >>,
  \* a call with several arguments as the LAST argument of another call (an inner call takes all the arguments that follow it)
  << <<SFunc(0, "pair", <<"a", "b">>, <<Ret(Bin("minus", Var("a"), <<Var("b")>>))>>)>>,
     <<Say(Call("pair", <<N(10), Call("pair", <<N(5), N(3)>>)>>)), Put(Bin("plus", N(100), <<N(1), Call("pair", <<N(9), N(4)>>)>>), "r"), Say(Var("r")),
       Put(Call("pair", <<N(1)>>), "r"), SayS("unreachable")>> >>,
  \* statements run in order, declarations included: a call above the declaration finds no function, a declaration under a
  \* variable of its name fails there (after what was printed before it)
  << <<SayS("before"), Say(Call("ff", <<N(1)>>)), SFunc(0, "ff", <<"a">>, <<Ret(Var("a"))>>), SayS("unreachable")>> >>,
  << <<Put(N(1), "ff"), SayS("between"), SFunc(0, "ff", <<"a">>, <<Ret(Var("a"))>>), SayS("unreachable")>> >>,
  << <<Put(N(0), "i"), SWhile(0, Lt(Var("i"), N(2)), <<SInc(0, Var("i"), 1), SIf(0, Eq(Var("i"), N(2)), <<Say(Call("ff", <<Var("i")>>))>>, FALSE, <<>>),
                                                      SFunc(0, "ff", <<"a">>, <<Ret(Var("a"))>>)>>), SayS("unreachable")>> >>,
  \* an assignment reads its right-hand side completely before it writes: `put x plus (a call that changes x) into x` uses the x
  \* read BEFORE the call; and a self-update of a name that does not exist is an error like any other read of it
  << <<SFunc(0, "fun", <<"p">>, <<Put(PlusE(Var("x"), Var("p")), "x"), Ret(Var("p"))>>)>>,
     <<Put(N(10), "x"), Put(PlusE(Var("x"), Call("fun", <<N(5)>>)), "x"), Say(Var("x")),
       Put(Bin("times", Var("x"), <<Call("fun", <<N(2)>>)>>), "x"), Say(Var("x"))>> >>,
  << <<SayS("before"), Put(PlusE(Var("nope"), N(1)), "nope"), SayS("unreachable")>> >>,
  << <<Put(S("a"), "x"), Put(PlusE(Var("x"), S("b")), "x"), Put(PlusE(Var("x"), Var("x")), "x"), Say(Var("x"))>> >>,
  \* ... and the other way round: a function defined in an inner scope hides a variable of that name for reading
  << <<Put(N(5), "v")>>,
     <<SIf(0, Lit(Bool(TRUE)), <<SFunc(0, "v", <<"a">>, <<Ret(Var("a"))>>), Say(Call("v", <<N(1)>>)), Say(Var("v"))>>, FALSE, <<>>), SayS("unreachable")>> >>,
  << <<SFunc(0, "ff", <<"a">>, <<Put(N(1), "ff"), Ret(Var("ff"))>>)>>, <<Say(Call("ff", <<N(0)>>)), Say(Call("ff", <<N(0)>>))>> >>,
  << <<SIf(0, Lit(Bool(TRUE)), <<SFunc(0, "inner", <<"a">>, <<Ret(Var("a"))>>), Say(Call("inner", <<N(1)>>))>>, FALSE, <<>>)>>,
     <<Say(Call("inner", <<N(2)>>))>> >>,
  << <<SFunc(0, "outer", <<"a">>, <<SFunc(0, "helper", <<"b">>, <<Ret(PlusE(Var("b"), Var("a")))>>), Ret(Call("helper", <<N(1)>>))>>)>>,
     <<Say(Call("outer", <<N(10)>>)), Say(Call("helper", <<N(1)>>))>> >>
}
FNPrograms(z) ==
  { << <<SFunc(0, "fun", <<"p">>, b)>>, mn >> : b \in FNBodies("fun", "p"), mn \in FNMains("fun") } \cup FN2

(* NC: two variables `x` and `y` that are alive together; run under namings that give them names a careless key would merge (C15) *)
NCPrograms == {
  << <<Put(N(1), "x"), Put(N(2), "y"), Say(Var("x")), Say(Var("y")), SInc(0, Var("x"), 1), Say(Var("y")), Say(Var("x"))>> >>,
  << <<SFunc(0, "fun", <<"x", "y">>, <<Ret(Bin("minus", Var("x"), <<Var("y")>>))>>)>>, <<Say(Call("fun", <<N(5), N(3)>>))>> >>,
  << <<SRock(0, Var("x"), <<N(1), N(2)>>), Put(S("s"), "y"), SRoll(0, Var("x"), Var("y")), Say(Var("y")), Say(Var("x"))>> >>
}

(* PR: pronouns next to every construct that can follow them (comparisons spelled with 's / 're, poetic assignment, subscripts) *)
PRPrograms(z) == {
  << <<Put(N(5), "x"), Say(Eq(Pro, N(5))), SPNum(0, Pro, N(6)), Say(Pro), SIf(0, Eq(Pro, N(6)), <<SayS("six")>>, TRUE, <<SayS("other")>>), Say(Var("x"))>> >>,
  << <<SRock(0, Var("x"), <<N(1), N(2)>>), Say(Idx(Pro, N(0))), SAssign(0, Idx(Pro, N(1)), "none", <<N(9)>>), Say(Idx(Var("x"), N(1))),
       Say(Bin("lt", Idx(Pro, N(0)), <<N(5)>>)), SRoll(0, Pro, Var("y")), Say(Var("y")), Say(Eq(Pro, N(1)))>> >>,
  << <<SPStr(0, Var("x"), "text"), Say(Eq(Pro, S("text"))), SPStr(0, Pro, "more text"), Say(Var("x")), SMut(0, "cut", Pro, ENone, ENone), Say(Var("x"))>> >>,
  << <<Put(Lit(Bool(TRUE)), "x"), SWhile(0, Eq(Pro, Lit(Bool(TRUE))), <<Put(Lit(Bool(FALSE)), "x")>>), Say(Var("x")), Say(Pro)>> >>,
  \* after `x at y` the last name mentioned is y (the array is read first, the subscript second)
  << <<SRock(0, Var("x"), <<N(10), N(20), N(30)>>), Put(N(1), "y"), Say(Idx(Var("x"), Var("y"))), Say(Pro), SInc(0, Pro, 1), Say(Var("y")),
       SIf(0, Eq(Idx(Var("x"), Var("y")), N(30)), <<Say(Pro)>>, FALSE, <<>>), Put(Idx(Var("x"), Var("y")), "z"), SInc(0, Pro, 5), Say(Var("z")), Say(Var("y"))>> >>,
  \* an element WRITE through the pronoun: the subscript is evaluated first, so the pronoun is whatever the subscript named last
  << <<SRock(0, Var("x"), <<N(10), N(20)>>), SRock(0, Var("y"), <<N(0)>>), Say(Var("x")), SAssign(0, Idx(Pro, N(1)), "none", <<N(7)>>), Say(Var("x")),
       Say(Var("x")), SAssign(0, Idx(Pro, S("k")), "none", <<N(8)>>), Say(Var("x")), Say(Idx(Var("x"), S("k"))), Say(Var("y"))>> >>,
  << <<SRock(0, Var("x"), <<N(10), N(20)>>), Put(N(1), "y"), Say(Var("x")), SAssign(0, Idx(Pro, Var("y")), "none", <<N(7)>>), SayS("unreachable")>> >>,
  << <<SFunc(0, "f", <<"p">>, <<Ret(Var("p"))>>)>>,
     <<SRock(0, Var("x"), <<N(10), N(20)>>), Say(Var("x")), SAssign(0, Idx(Pro, Call("f", <<N(0)>>)), "none", <<N(7)>>), SayS("unreachable")>> >>,
  << <<SFunc(0, "f", <<"p", "q">>, <<SIf(0, Eq(Idx(Var("p"), Var("q")), N(20)), <<Ret(Pro)>>, FALSE, <<>>), Ret(N(0))>>)>>,
     <<SRock(0, Var("x"), <<N(10), N(20)>>), Say(Call("f", <<Var("x"), N(1)>>)), Say(Call("f", <<Var("x"), N(0)>>))>> >>
}

(* CT: block structure as TEXT (C04): what belongs to which branch or loop is decided by the parser (blank lines, else, the   *)
(* end of a function), so these programs go through the renderer and the real front end                                        *)
CTIf(c, th, el) == SIf(0, c, th, TRUE, el)
CTPrograms(z) ==
  LET TT == Lit(Bool(TRUE)) FF == Lit(Bool(FALSE)) IN {
  \* an else branch holding a nested if/else and more statements after it
  << <<CTIf(c1, <<SayS("one")>>, <<CTIf(c2, <<SayS("two")>>, <<SayS("three")>>), SayS("still else")>>), SayS("same block")>>, <<SayS("next block")>> >>
     : c1 \in {TT, FF}, c2 \in {TT, FF} }
  \cup {
  \* an else-if chain inside a loop: its closing blank line must not close the loop
  << <<Put(N(0), "i"), SWhile(0, Lt(Var("i"), N(4)), <<SInc(0, Var("i"), 1),
         CTIf(Eq(Var("i"), N(1)), <<SayS("a")>>, <<CTIf(Eq(Var("i"), N(2)), <<SayS("b")>>, <<SayS("c")>>)>>), Say(Var("i"))>>), SayS("end")>> >>,
  \* nested if/else in the then branch, loops inside branches, if without else inside else
  << <<Put(N(0), "i"), SUntil(0, Eq(Var("i"), N(3)), <<SInc(0, Var("i"), 1),
         CTIf(Lt(Var("i"), N(2)), <<CTIf(Eq(Var("i"), N(1)), <<SayS("a")>>, <<SayS("b")>>), SayS("then tail")>>,
              <<SIf(0, Eq(Var("i"), N(3)), <<SayS("three")>>, FALSE, <<>>), SayS("else tail")>>)>>), SayS("end")>> >>,
  << <<SFunc(0, "f", <<"p">>, <<CTIf(Var("p"), <<Ret(S("t"))>>, <<CTIf(Eq(Var("p"), N(0)), <<Ret(S("zero"))>>, <<Ret(S("f"))>>)>>)>>)>>,
     <<Say(Call("f", <<N(1)>>)), Say(Call("f", <<N(0)>>)), Say(Call("f", <<Lit(Null)>>))>> >>,
  << <<SFunc(0, "f", <<"p">>, <<SWhile(0, TT, <<CTIf(Var("p"), <<SBreak(0)>>, <<CTIf(TT, <<Ret(S("inner"))>>, <<SayS("no")>>), SayS("no")>>)>>), Ret(S("after loop"))>>)>>,
     <<Say(Call("f", <<N(1)>>)), Say(Call("f", <<N(0)>>))>> >>,
  << <<Put(N(0), "i"), SWhile(0, Lt(Var("i"), N(3)), <<SInc(0, Var("i"), 1), SIf(0, Eq(Var("i"), N(2)), <<SContinue(0)>>, FALSE, <<>>),
         Put(N(0), "j"), SWhile(0, Lt(Var("j"), N(2)), <<SInc(0, Var("j"), 1), CTIf(Eq(Var("j"), N(1)), <<SContinue(0)>>, <<SBreak(0)>>), SayS("never")>>), Say(Var("i"))>>)>>,
     <<SayS("end")>> >>,
  << <<CTIf(FF, <<>>, <<SayS("else of empty then")>>), CTIf(TT, <<SayS("then")>>, <<>>), SayS("after")>> >>
  } \cup CFCondLoops

(* CL: compound assignment as TEXT (C14): `let x be op e` against `let x be x op e`, the operator spelled as a word or as a symbol *)
(* (whether `let x be - 3` is a subtraction is decided by the parser)                                                            *)
CLStart == { N(10), S("ab"), Lit(Null) }
CLArgs == { <<N(3)>>, <<N(3), N(2)>>, <<S("x")>>, <<Var("y")>>, <<Lit(Fin(32))>> }
CLCompound(a, op, es) == << <<Put(N(4), "y"), Put(a, "x"), SAssign(0, Var("x"), op, es), Say(Var("x"))>> >>
CLExpanded(a, op, es) == << <<Put(N(4), "y"), Put(a, "x"), SAssign(0, Var("x"), "none", <<Bin(op, Var("x"), es)>>), Say(Var("x"))>> >>
CLPairs == { <<CLCompound(a, op, es), CLExpanded(a, op, es)>> : a \in CLStart, op \in ArithOps, es \in CLArgs }
CLPrograms(z) == UNION { {pr[1], pr[2]} : pr \in CLPairs }
CompoundIsExpanded ==
  \A pr \in CLPairs : LET r1 == RunAll(InitQuiet(Number(pr[1]), <<>>, -1, 0)) r2 == RunAll(InitQuiet(Number(pr[2]), <<>>, -1, 0)) IN
                       r1.st = r2.st /\ r1.out = r2.out

(* LT: programs for the linter as TEXT: constant assignments of every form at every depth, repeated mentions, several blocks *)
LTPrograms(z) == {
  << <<Put(N(5), "x"), Say(Var("x")), SPNum(0, Var("y"), N(3)), Put(S("hi"), "h")>>,
     <<SIf(0, Var("x"), <<Put(Bin("plus", N(1), <<N(2)>>), "y"), SRock(0, Var("a"), <<N(4)>>)>>, TRUE, <<SAssign(0, Idx(Var("a"), N(0)), "none", <<N(7)>>)>>)>>,
     <<Say(Var("y")), Say(Var("y"))>> >>,
  << <<SFunc(0, "f", <<"p">>, <<SWhile(0, Var("p"), <<Put(Un("neg", N(5)), "q"), SBreak(0)>>), Put(N(2), "p"), Ret(Var("p"))>>)>>,
     <<Put(Bin("times", N(2), <<N(3), N(4)>>), "x"), Say(Call("f", <<Var("x")>>)), Say(Var("x"))>>,
     <<SRock(0, Var("a"), <<N(1), N(2)>>), SRock(0, Var("a"), <<Bin("over", N(1), <<N(2)>>)>>), Say(Var("a"))>> >>,
  << <<Put(Var("x"), "y"), Put(Bin("minus", N(0), <<N(1)>>), "x")>>, <<SPStr(0, Var("h"), "some text"), Say(Var("h")), Say(Var("h"))>>,
     <<SUntil(0, Lit(Bool(TRUE)), <<Put(Lit(Fin(96)), "x")>>), Put(S(""), "k"), SAssign(0, Var("x"), "plus", <<N(1)>>), Say(Var("x"))>> >>,
  \* a string literal that holds a line break: the statement starts on the line its first token is on, later statements move down
  << <<Put(S("two" \o "\n" \o "lines"), "x"), Put(N(7), "y"), SRock(0, Var("a"), <<S("one" \o "\n" \o "more")>>), Put(N(8), "y")>>,
     <<SIf(0, Var("x"), <<Put(S("a" \o "\n" \o "\n" \o "b"), "h"), Put(N(1), "k")>>, FALSE, <<>>)>> >>
}

-----------------------------------------------------------------------------
(* AR: operation sequences over arrays that were copied from one another *)
GDef == SFunc(0, "grow", <<"a">>, <<SRock(0, Var("a"), <<S("g")>>), SAssign(0, Idx(Var("a"), S("fk")), "none", <<N(1)>>), Ret(Var("a"))>>)
(* a function whose parameter has the caller's variable's name and which changes its copy through the pronoun *)
PDef == SFunc(0, "ff", <<"x">>, <<SRock(0, Var("x"), <<S("n")>>), SRock(0, Pro, <<S("p")>>), SAssign(0, Idx(Pro, N(0)), "none", <<N(7)>>),
                                  SAssign(0, Idx(Pro, S("pk")), "none", <<N(8)>>), Ret(Var("x"))>>)
AROps == {
  Put(Call("ff", <<Var("x")>>), "y"),
  \* the whole list is evaluated before anything is appended; the subscript may change the array it is applied to
  SRock(0, Var("x"), <<N(5), PlusE(Var("x"), N(1))>>),
  SRock(0, Var("y"), <<Var("x"), Var("y")>>),
  Say(Idx(Var("x"), RollE(Var("x")))),
  SAssign(0, Idx(Var("x"), N(0)), "none", <<N(1)>>),
  SAssign(0, Idx(Var("x"), N(2)), "none", <<S("s")>>),
  SAssign(0, Idx(Var("x"), S("k")), "none", <<N(2)>>),
  SAssign(0, Idx(Idx(Var("x"), N(1)), N(0)), "none", <<N(3)>>),
  SRock(0, Var("x"), <<N(4)>>),
  SRock(0, Var("x"), <<N(5), S("six")>>),
  SRoll(0, Var("x"), Var("y")),
  SRoll(0, Var("y"), ENone),
  Put(Var("x"), "y"),
  SAssign(0, Idx(Var("x"), N(1)), "none", <<Var("y")>>),
  SRock(0, Var("y"), <<Var("x")>>),
  SAssign(0, Idx(Var("y"), N(0)), "none", <<N(9)>>),
  Put(Call("grow", <<Var("x")>>), "y"),
  Say(Var("x")), Say(Var("y")),
  Say(Idx(Var("x"), N(0))),
  Say(Idx(Idx(Var("x"), N(1)), N(0))),
  Say(Idx(Var("x"), S("k"))),
  Say(PlusE(Var("x"), N(1))),
  Say(Eq(Var("x"), Var("y"))),
  Say(Idx(Var("y"), S("fk")))
}
ARWrites == { o \in AROps : o.s # "say" }
ARPrograms3(z) ==
  LET W == ARWrites IN { << <<GDef>>, <<PDef>>, <<a, b, c, Say(Var("x")), Say(Var("y"))>> >> : a \in W, b \in W, c \in AROps }
ARPrograms(z) ==
  LET W == ARWrites IN
  ARPrograms3(z)
  \cup (IF Tier = "quick" THEN {} ELSE { << <<GDef>>, <<PDef>>, <<a, b, c, d, Say(Var("x")), Say(Var("y"))>> >> : a \in W, b \in W, c \in W, d \in AROps })

-----------------------------------------------------------------------------
(* IO: say / listen interleavings x input texts x every writer budget x every failing read *)
IOOps == { SayS("ab"), Say(N(1)), SListen(0, Var("x")), SListen(0, ENone), Say(Var("x")), Say(PlusE(Var("x"), S("!"))),
           SIf(0, Var("x"), <<SayS("t")>>, TRUE, <<SayS("f")>>), SListen(0, Idx(Var("x"), N(0))) }
IOInputs == { <<>>, <<"l1\n">>, <<"l1">>, <<"\n", "z\n">>, <<"a\n", "b\n", "c">>,
              <<"ke", "pt\n", "x">>, <<"a\nb\n", "c\n">>,              \* a line delivered in pieces; two lines delivered at once
              <<"kept\nx">>, <<"k", "e", "pt", "\n", "x">>, <<"kept", "\nx">> }   \* the same bytes as <<"ke", "pt\n", "x">>, cut elsewhere
IOInputsU == { <<"~\n", "b~">> }
(* lines with blanks at their ends: a line is taken as typed, only its line end is removed *)
IOInputsB == { <<"a  \n", " \n", "b\t\n">>, <<" lead and trail \n", "\t">> }
(* I/O that happens while an EXPRESSION is evaluated (a called function says and listens), in every statement position: a fault   *)
(* there stops the program like any other                                                                                         *)
IOFun == SFunc(0, "fun", <<"p">>, <<Say(Var("p")), SListen(0, Var("got")), SReturn(0, Var("got"))>>)
IOCall(t) == Call("fun", <<S(t)>>)
IOExprStmts == { Say(IOCall("a")), Put(IOCall("a"), "r"), SRock(0, Var("q"), <<IOCall("a"), IOCall("b")>>), SRock(0, Var("q"), <<S("s"), IOCall("a")>>),
                 SIf(0, IOCall("a"), <<SayS("t")>>, TRUE, <<SayS("f")>>), SWhile(0, Un("not", IOCall("a")), <<SayS("in"), SBreak(0)>>),
                 Say(Idx(Var("q"), IOCall("a"))), SAssign(0, Idx(Var("q"), IOCall("a")), "none", <<IOCall("b")>>),
                 SMut(0, "cut", Var("s"), Var("t"), IOCall("a")), SCall(0, "fun", <<IOCall("a")>>), Say(Bin("plus", IOCall("a"), <<IOCall("b"), S("!")>>)),
                 SAssign(0, Var("s"), "plus", <<IOCall("a")>>), Say(Bin("and", IOCall("a"), <<IOCall("b")>>)) }
IOExprProgs == { << <<IOFun>>, <<Put(S("x,y"), "s"), st, SayS("end")>> >> : st \in IOExprStmts }
IOProgs == Seqs1(IOOps) \cup Seqs2(IOOps, IOOps) \cup (IF Tier = "quick" THEN {} ELSE { <<a, b, c>> : a, b, c \in IOOps })
-----------------------------------------------------------------------------
(* DICT: arrays with several non-numeric keys that are joined, printed, compared, or named in an error *)
DKeys == { S("a"), S("b"), S("c"), Lit(Bool(TRUE)), Lit(Bool(FALSE)), Lit(Null), Lit(Myst), S("") }
DVal(k) == CASE k.v.t = "str" -> S("v" \o k.v.s) [] k.v.t = "bool" -> S(IF k.v.b THEN "vT" ELSE "vF") [] k.v.t = "null" -> S("vN") [] OTHER -> S("vM")
DFill(ks) == [i \in 1..Len(ks) |-> SAssign(0, Idx(Var("x"), ks[i]), "none", <<DVal(ks[i])>>)]
DTails == {
  <<SMut(0, "join", Var("x"), Var("y"), ENone), Say(Var("y"))>>,
  <<SMut(0, "join", Var("x"), Var("y"), S("/")), Say(Var("y"))>>,
  <<SRock(0, Var("x"), <<S("s0"), S("s1")>>), SMut(0, "join", Var("x"), ENone, S(",")), Say(Var("x"))>>,
  <<Put(Var("x"), "y"), Say(Eq(Var("x"), Var("y"))), Say(Var("x"))>>,
  <<SAssign(0, Idx(Var("x"), S("n")), "none", <<N(1)>>), SMut(0, "join", Var("x"), Var("y"), ENone), Say(Var("y"))>>,
  <<SMut(0, "cast", Var("x"), ENone, ENone)>>,
  <<SAssign(0, Idx(Var("x"), S("n")), "none", <<N(1)>>), SAssign(0, Idx(Var("x"), S("m")), "none", <<N(2)>>),
    SAssign(0, Idx(Var("x"), Lit(Null)), "none", <<N(3)>>), SMut(0, "join", Var("x"), ENone, ENone)>>,
  <<SAssign(0, Idx(Var("x"), S("n")), "none", <<Var("x")>>), SAssign(0, Idx(Var("x"), S("m")), "none", <<Var("x")>>), Say(Idx(Var("x"), Var("x")))>>,
  <<Say(Lt(Var("x"), Lit(Bool(TRUE))))>>,
  <<SAssign(0, Idx(Var("x"), N(0)), "none", <<N(1)>>), SAssign(0, Idx(Var("x"), S("q")), "none", <<Lit(Bool(TRUE))>>), SMut(0, "join", Var("x"), ENone, ENone)>>
}
(* a long array (34 elements and 6 keyed entries) printed, joined, compared and named in an error: nothing about a value's text may *)
(* depend on its size                                                                                                              *)
DBigFill(n, ks) == <<SRock(0, Var("x"), [i \in 1..n |-> S("e")])>> \o DFill(ks)
DBigTails == { <<SMut(0, "cast", Var("x"), ENone, ENone)>>, <<Say(Lt(Var("x"), Lit(Bool(TRUE))))>>,
               <<SMut(0, "join", Var("x"), Var("y"), S("/")), Say(Var("y"))>>,
               <<Say(Var("x")), Say(Idx(Var("x"), Var("x")))>>,
               <<Put(Var("x"), "y"), SRoll(0, Var("y"), ENone), Say(Eq(Var("x"), Var("y"))), STurn(0, "up", Var("y"))>> }
DAllKeys == <<S("a"), S("b"), S("c"), Lit(Null), Lit(Bool(TRUE)), S(""), Lit(Bool(FALSE)), Lit(Myst)>>
DBigPrograms == { << DBigFill(34, SubSeq(DAllKeys, 1, 6)) \o t >> : t \in DBigTails }
                \cup { << DBigFill(n, DAllKeys) \o t >> : n \in {20, 26, 28, 60}, t \in DBigTails }
DKeySeqs == { <<a, b, c>> : a, b, c \in DKeys } \cup (IF Tier = "quick" THEN {} ELSE { <<a, b, c, d>> : a, b, c, d \in DKeys })
(* a second array filled with the same entries in the opposite order is the same array *)
DFillY(ks) == [i \in 1..Len(ks) |-> SAssign(0, Idx(Var("y"), ks[Len(ks) + 1 - i]), "none", <<DVal(ks[Len(ks) + 1 - i])>>)]
DCompare(ks) == DFillY(ks) \o <<Say(Eq(Var("x"), Var("y"))), Say(Bin("ne", Var("x"), <<Var("y")>>)),
                                SRock(0, Var("o"), <<Var("x")>>), SRock(0, Var("q"), <<Var("y")>>), Say(Eq(Var("o"), Var("q"))),
                                SAssign(0, Idx(Var("y"), ks[1]), "none", <<S("other")>>), Say(Eq(Var("x"), Var("y")))>>
DICTPrograms(z) == DBigPrograms \cup { << DFill(ks) \o t >> : ks \in { q \in DKeySeqs : \A i, j \in 1..Len(q) : i # j => q[i] # q[j] }, t \in DTails }
                   \cup { << DFill(ks) \o DCompare(ks) >> : ks \in { q \in DKeySeqs : \A i, j \in 1..Len(q) : i # j => q[i] # q[j] } }

-----------------------------------------------------------------------------
(* ILL: every statement form applied to every value kind (C09) *)
IllSetup == <<Put(Lit(Null), "vn"), Put(Lit(Bool(TRUE)), "vb"), Put(N(0), "vz"), Put(Lit(Fin(96)), "vf"), Put(S("ab"), "vs"), Put(S(""), "ve"),
              SRock(0, Var("va"), <<N(1), S("x")>>), SAssign(0, Idx(Var("va"), S("k")), "none", <<N(2)>>),
              Put(Lit(NaN), "vnan"), Put(Lit(Huge), "vh"), Put(N(-1), "vneg"), Put(S("1,2"), "vc"), Put(S("~b~"), "vu"), Put(N(1), "vone"), Put(S("x~~~~~~~~~~~~~~~~~~~~~~~~~~~~~~~~~~~~~~~~"), "vl"),
              SFunc(0, "fn", <<"a">>, <<Ret(Var("a"))>>)>>
IllVars == { "vm", "vn", "vb", "vz", "vf", "vs", "ve", "va", "vnan", "vneg", "vc", "fn", "vu", "vone", "vl" } \cup (IF Tier = "quick" THEN {} ELSE {"vh"})
IllStmts(x, p) == {
  Say(Var(x)), Say(Un("neg", Var(x))), Say(Un("not", Var(x))), Say(Idx(Var(x), Var(p))),
  SAssign(0, Idx(Var(x), Var(p)), "none", <<N(1)>>), SInc(0, Var(x), 2), SDec(0, Var(x), 1),
  SRock(0, Var(x), <<Var(p)>>), SRock(0, Var(x), <<>>), SRoll(0, Var(x), ENone), SRoll(0, Var(x), Var("y")),
  SMut(0, "cut", Var(x), ENone, ENone), SMut(0, "cut", Var(x), ENone, Var(p)), SMut(0, "cut", Var(x), Var("y"), Var(p)),
  SMut(0, "join", Var(x), ENone, Var(p)), SMut(0, "join", Var(x), Idx(Var("y"), Var(p)), ENone),
  SMut(0, "cast", Var(x), ENone, Var(p)), SMut(0, "cast", Var(x), ENone, ENone), SMut(0, "cast", Var(x), Var("y"), ENone),
  STurn(0, "up", Var(x)), STurn(0, "down", Var(x)), STurn(0, "nearest", Var(x)),
  SIf(0, Var(x), <<SayS("t")>>, TRUE, <<SayS("f")>>),
  SWhile(0, Var(x), <<SayS("w"), SBreak(0)>>),
  SListen(0, Idx(Var(x), Var(p))), SListen(0, Var(x)),
  SCall(0, x, <<Var(p)>>), Say(Call(x, <<Var(p), Var(p)>>)),
  SAssign(0, Var(x), "plus", <<Var(p)>>), SAssign(0, Var(x), "over", <<Var(p), Var(p)>>), SAssign(0, Var(x), "none", <<Var(p), Var(p)>>),
  SAssign(0, Idx(Idx(Var(x), Var(p)), Var(p)), "none", <<Var(x)>>),
  SPStr(0, Var(x), "txt"), SPNum(0, Idx(Var(x), Var(p)), N(5)),
  SFunc(0, x, <<"a">>, <<>>), SReturn(0, Var(x)),
  Say(Bin("lt", Var(x), <<Var(p)>>)), Say(Bin("times", Var(x), <<Var(p)>>)), Say(Bin("and", Var(x), <<Var(p), Var("nope")>>)),
  STurn(0, "up", Lit(Fin(96))), STurn(0, "up", Idx(Var(x), Var(p))), SInc(0, Pro, 1), SRock(0, Lit(Str("lit")), <<Var(p)>>),
  SRoll(0, N(5), Var(x)), Say(RollE(Lit(Str("abc")))), SRoll(0, Idx(N(5), Var(p)), ENone),          \* a pop of something that is no variable
  SPNum(0, Var(x), PLit(<<PW("abc"), PD, PW("de")>>)), SRock(0, Var(x), <<PLit(<<PW("a"), PW("lovely")>>)>>), SPNum(0, Idx(Var(x), Var(p)), PLit(<<PW("it")>>)),
  SMut(0, "cut", Lit(Str("a,b")), Var(x), Var(p)), SRoll(0, Idx(Var(x), Var(p)), Pro),
  \* a call where a statement wants something it can write to
  SRock(0, Call(x, <<Var(p)>>), <<N(1), N(2)>>), SRock(0, Call(x, <<Var(p), Pro>>), <<>>), SRoll(0, Call(x, <<Var(p)>>), Var("y")),
  SMut(0, "cut", Call(x, <<Var(p)>>), ENone, ENone), STurn(0, "up", Call(x, <<Var(p)>>)), SRock(0, Idx(Call(x, <<Var(p)>>), N(0)), <<N(1)>>),
  SMut(0, "cast", Var(x), Idx(Call("fn", <<Var(p)>>), N(0)), ENone)
}
ILLPrograms(z) ==
  UNION { { << IllSetup, <<st, Say(Var(x)), Say(Var("y"))>> >> : st \in UNION { IllStmts(x, p) : p \in IllVars } } : x \in IllVars }
  \cup { << <<a>>, <<b>>, <<SayS("end")>> >> : a, b \in { SBreak(0), SContinue(0), SReturn(0, N(1)), SFunc(0, "d", <<"a">>, <<>>), SCall(0, "d", <<N(1)>>) } }

-----------------------------------------------------------------------------
(* the subscript of a statement's target is evaluated exactly once, whatever the statement does with the element: the subscript *)
(* takes the next number from a queue, so a second evaluation reads or writes another element and is visible in both arrays       *)
OnceTarget == Idx(Var("a"), RollE(Var("q")))
OnceStmts == {
  STurn(0, "up", OnceTarget), STurn(0, "nearest", OnceTarget),                       \* (build / knock take a plain variable only)
  SAssign(0, OnceTarget, "plus", <<N(1)>>), SAssign(0, OnceTarget, "times", <<N(2), N(3)>>), SAssign(0, OnceTarget, "none", <<N(9)>>),
  SMut(0, "cast", OnceTarget, ENone, ENone), SMut(0, "cut", S("a,b"), OnceTarget, S(",")), SMut(0, "cast", S("12"), OnceTarget, ENone),
  SRock(0, OnceTarget, <<N(1)>>), SRock(0, OnceTarget, <<N(7), N(8)>>), SRoll(0, OnceTarget, Var("y")), SRoll(0, Var("q"), OnceTarget), SListen(0, OnceTarget),
  SPNum(0, OnceTarget, N(5)), SPStr(0, OnceTarget, "txt"), Say(OnceTarget),
  SAssign(0, Idx(OnceTarget, RollE(Var("q"))), "none", <<N(4)>>) }
OncePrograms == { << <<SRock(0, Var("q"), <<N(0), N(1), N(0)>>), SRock(0, Var("a"), <<Lit(Fin(96)), Lit(Fin(4192))>>), st, Say(Var("a")), Say(Var("q")), Say(Var("y"))>> >>
                  : st \in OnceStmts }

(* MU: cut / join / cast / turn on variables, subscripts and pronouns, with and without a destination *)
MUPrograms(z) == {
  <<  <<SRock(0, Var("q"), <<S(","), S("a,b")>>), SMut(0, "cut", RollE(Var("q")), Var("r"), RollE(Var("q"))), Say(Var("r")), Say(Var("q"))>> >>,
  <<  <<Put(S("a,b"), "x"), SMut(0, "cut", Var("x"), ENone, S(",")), Say(Var("x")), Say(Idx(Var("x"), N(1)))>> >>,
  <<  <<Put(S("a,b"), "x"), SMut(0, "cut", Var("x"), Var("y"), S(",")), Say(Var("x")), Say(Var("y")), SMut(0, "join", Var("y"), Var("x"), S("+")), Say(Var("x")), Say(Var("y"))>> >>,
  <<  <<Put(S("ab"), "x"), SMut(0, "cut", Pro, ENone, ENone), Say(Var("x")), Say(Idx(Pro, N(0)))>> >>,
  <<  <<Put(S("ab"), "x"), SMut(0, "cut", Var("x"), Idx(Var("d"), S("k")), ENone), Say(Idx(Idx(Var("d"), S("k")), N(1))), Say(Var("x"))>> >>,
  <<  <<SRock(0, Var("x"), <<S("1"), S("2")>>), SMut(0, "cast", Idx(Var("x"), N(1)), Idx(Var("x"), N(0)), ENone), Say(Idx(Var("x"), N(0))), Say(Idx(Var("x"), N(1)))>> >>,
  <<  <<Put(S("ff"), "x"), SMut(0, "cast", Var("x"), ENone, N(16)), Say(Var("x")), SMut(0, "cast", Var("x"), Var("c"), ENone), Say(Var("x"))>> >>,
  <<  <<Put(N(65), "x"), SMut(0, "cast", Var("x"), Var("c"), ENone), Say(Var("c")), Say(Var("x")), SMut(0, "cast", Pro, ENone, ENone), Say(Var("x"))>> >>,
  <<  <<Put(Lit(Fin(160)), "x"), STurn(0, "up", Var("x")), Say(Var("x")), Put(Lit(Fin(-160)), "x"), STurn(0, "nearest", Pro), Say(Var("x")),
        SRock(0, Var("a"), <<Lit(Fin(96))>>), STurn(0, "down", Idx(Var("a"), N(0))), Say(Idx(Var("a"), N(0)))>> >>,
  <<  <<Put(S("a"), "x"), SMut(0, "join", Var("x"), ENone, ENone)>> >>,
  <<  <<SRock(0, Var("x"), <<S("a"), N(1)>>), SayS("before"), SMut(0, "join", Var("x"), Var("y"), ENone), SayS("after")>> >>
} \cup OncePrograms


-----------------------------------------------------------------------------
=============================================================================
