CONSTANTS
  SuffixUsesStaleLine = FALSE
  Alphabet <- SoupLong
  MaxLen = 4
  Prefix <- PrefixNone
SPECIFICATION SpecFast
INVARIANT WellFormed
INVARIANT Terminates
INVARIANT CursorInRange
INVARIANT Complete
INVARIANT Emit
CHECK_DEADLOCK FALSE
