------------------------------- MODULE Poetic -------------------------------
(***************************************************************************)
(* Poetic number literals (C11).  A literal is a sequence of elements      *)
(*   [k |-> "w", s |-> word]   a word                                      *)
(*   [k |-> "s", s |-> text]   a suffix glued to the preceding word        *)
(*                             ('s, 're, or -word)                         *)
(*   [k |-> "d"]               a period                                    *)
(* A word together with its suffixes contributes one digit: the number of  *)
(* its characters other than apostrophes, modulo 10.  The first period is  *)
(* the decimal point; later periods are ignored.  A suffix with no word    *)
(* before it (first, or directly after a period) stands as a word of its   *)
(* own (behaviour fixed by a0cd7a6).                                       *)
(***************************************************************************)
EXTENDS Integers, Sequences

ChAt(s, i) == SubSeq(s, i, i)
RECURSIVE WordLen(_)
WordLen(s) == IF s = "" THEN 0 ELSE (IF ChAt(s, 1) = "'" THEN 0 ELSE 1) + WordLen(SubSeq(s, 2, Len(s)))

(* group elements into items: <<"d">> or <<"w", total length>> *)
RECURSIVE Items(_, _)
Items(es, open) ==      \* open: length accumulated for the word being built, -1 if none
  IF es = <<>> THEN (IF open >= 0 THEN << <<"w", open>> >> ELSE <<>>)
  ELSE LET h == Head(es) IN
       CASE h.k = "d" -> (IF open >= 0 THEN << <<"w", open>> >> ELSE <<>>) \o << <<"d">> >> \o Items(Tail(es), -1)
         [] h.k = "w" -> (IF open >= 0 THEN << <<"w", open>> >> ELSE <<>>) \o Items(Tail(es), WordLen(h.s))
         [] h.k = "s" -> Items(Tail(es), (IF open >= 0 THEN open ELSE 0) + WordLen(h.s))

(* digits before and after the decimal point *)
Digits(es) ==
  LET its == Items(es, -1)
      RECURSIVE Split(_, _, _, _)
      Split(i, seen, ip, fp) ==
        IF i > Len(its) THEN [ip |-> ip, fp |-> fp]
        ELSE IF its[i][1] = "d" THEN Split(i + 1, TRUE, ip, fp)
        ELSE IF seen THEN Split(i + 1, seen, ip, Append(fp, its[i][2] % 10))
        ELSE Split(i + 1, seen, Append(ip, its[i][2] % 10), fp)
  IN Split(1, FALSE, <<>>, <<>>)

RECURSIVE DigitsToNat(_, _)
DigitsToNat(ds, acc) == IF ds = <<>> THEN acc ELSE DigitsToNat(Tail(ds), acc * 10 + Head(ds))

(* the literal's value when it is an integer of at most 7 digits; -1 otherwise (fractions and long numerals *)
(* are computed in floating point by the implementation: the model leaves them undetermined)             *)
SmallIntValue(es) ==
  LET d == Digits(es) IN IF d.fp = <<>> /\ Len(d.ip) <= 7 THEN DigitsToNat(d.ip, 0) ELSE -1
=============================================================================
