--------------------------- MODULE MC_ParserCorpus ---------------------------
(***************************************************************************)
(* The recogniser model (Lexer.tla + Parser.tla) on the program corpus:    *)
(* the texts of the Rockstar programs embedded in the repository's own     *)
(* integration tests (environment variable CORPUS: ndjson [file, text]).   *)
(* The model's verdict - the tree, or the line of the error - is printed   *)
(* for comparison with the real parser's (replay family `verdict`).        *)
(***************************************************************************)
EXTENDS Parser, Json, IOUtils

Rec == ndJsonDeserialize(IOEnv.CORPUS)
VARIABLE i
Init == i \in 1..Len(Rec)
Next == UNCHANGED i
ParserTotal == LET v == Verdict(Rec[i].text) IN v.ok \/ v.line >= 1
Emit == PrintT(<<"R", ToJson([fam |-> "verdict", file |-> Rec[i].file, text |-> Rec[i].text, v |-> Verdict(Rec[i].text)])>>)
=============================================================================
