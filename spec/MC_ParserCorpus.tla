--------------------------- MODULE MC_ParserCorpus ---------------------------
(***************************************************************************)
(* The recogniser model (Lexer.tla + Parser.tla) on the program corpus:    *)
(* the texts of the Rockstar programs embedded in the repository's own     *)
(* integration tests (environment variable CORPUS: ndjson [file, text]).   *)
(* The model's verdict - the tree, or the line of the error - is printed   *)
(* for comparison with the real parser's (replay family `verdict`).        *)
(***************************************************************************)
EXTENDS Parser, Json, IOUtils

Rec == ndJsonDeserialize(IOEnv.CORPUS)
CONSTANT MaxChars        \* texts longer than this are left to the thorough tier (the recogniser model is slow on long texts)
VARIABLE i
Init == i \in -16..-1                            \* sixteen cheap initial states (shards); the texts of a shard are its successors
Next == i < 0 /\ i' \in { k \in 1..Len(Rec) : Len(Rec[k].text) <= MaxChars /\ k % 16 = -i - 1 }
(* the verdict is computed once per text: it is total, and it is printed *)
Emit == i < 0 \/ LET v == Verdict(Rec[i].text) IN
                  /\ (v.ok \/ v.line >= 1)
                  /\ PrintT(<<"R", ToJson([fam |-> "verdict", file |-> Rec[i].file, text |-> Rec[i].text, v |-> v])>>)
=============================================================================
