------------------------------ MODULE TableTrace ------------------------------
(***************************************************************************)
(* Implementation -> specification for C14: each trace line holds, for one *)
(* ordered pair (a, b) of the value universe, the IMPLEMENTATION's own     *)
(* results of equality, ordering and logic in both orders, truthiness,     *)
(* `not`, build-then-knock, and compound vs expanded assignment.  TLC      *)
(* evaluates the law formulas of Laws.tla on these recorded tables: the    *)
(* laws, not the model's cells, are the oracle.                            *)
(***************************************************************************)
EXTENDS Laws, Json, IOUtils

Rec == ndJsonDeserialize(IOEnv.TRACE)
VARIABLE l
Init == l = 1

Ks == {"1", "2", "3", "-1", "-2", "-3"}
(* the same laws on the cells obtained by RUNNING the expression (`put a op b into r`, `put not a into r`) and on truthiness as *)
(* the branch an `if` takes and whether a `while` enters its body                                                              *)
AcceptsRun(r) ==
  LET B(op, x, y) == IF x = r.a /\ y = r.b THEN r.pab[op] ELSE r.pba[op]
      T(x) == IF x = r.a THEN r.pta ELSE r.ptb
      N(x) == r.pna
  IN /\ r.pta \in {"T", "F"} /\ r.ptb \in {"T", "F"}                    \* a branch and a loop see the same truthiness
     /\ r.pta = r.ta /\ r.ptb = r.tb                                    \* and it is the value's truthiness
     /\ EqSym(B, r.a, r.b) /\ NeqIsNegation(B, r.a, r.b) /\ NeqIsNegation(B, r.b, r.a)
     /\ LtGtMirror(B, r.a, r.b) /\ LeGeMirror(B, r.a, r.b) /\ LtGtMirror(B, r.b, r.a) /\ LeGeMirror(B, r.b, r.a)
     /\ ErrMirror(B, r.a, r.b)
     /\ AntisymIsEq(B, r.a, r.b) /\ AntisymIsEq(B, r.b, r.a)
     /\ OrderConsistent(B, r.a, r.b)
     /\ LogicAgreesWithTruthy(B, T, r.a, r.b)
     /\ NotAgreesWithTruthy(N, T, r.a)
Accepts(r) ==
  LET B(op, x, y) == IF x = r.a /\ y = r.b THEN r.ab[op] ELSE r.ba[op]
      T(x) == IF x = r.a THEN r.ta ELSE r.tb
      N(x) == r.na
  IN /\ AcceptsRun(r)
     /\ EqSym(B, r.a, r.b) /\ NeqIsNegation(B, r.a, r.b) /\ NeqIsNegation(B, r.b, r.a)
     /\ LtGtMirror(B, r.a, r.b) /\ LeGeMirror(B, r.a, r.b) /\ LtGtMirror(B, r.b, r.a) /\ LeGeMirror(B, r.b, r.a)
     /\ ErrMirror(B, r.a, r.b)
     /\ AntisymIsEq(B, r.a, r.b) /\ AntisymIsEq(B, r.b, r.a)
     /\ OrderConsistent(B, r.a, r.b)
     /\ LogicAgreesWithTruthy(B, T, r.a, r.b)
     /\ NotAgreesWithTruthy(N, T, r.a)
     /\ \A k \in Ks : r.a.t \in {"bool", "num"} /\ IsVal(r.inc1[k]) => Restored(r.a, r.inc2[k])
     /\ \A op \in DOMAIN r.c1 : r.c1[op] = r.c2[op]                      \* let x be op e  =  let x be x op e
Consume == l <= Len(Rec) /\ Accepts(Rec[l]) /\ l' = l + 1
Spec == Init /\ [][Consume]_l
Accepted ==
  LET n == TLCGet("stats").diameter IN
  IF n = Len(Rec) + 1 THEN TRUE ELSE PrintT(<<"REJECTED", n, ToJson(Rec[n])>>) /\ FALSE
=============================================================================
