CONSTANTS
  SuffixUsesStaleLine = FALSE
  Alphabet <- AlphaMulti
  MaxLen = 4
  Prefix <- PrefixQNL
SPECIFICATION SpecFast
INVARIANT WellFormed
INVARIANT Terminates
INVARIANT CursorInRange
INVARIANT Complete
INVARIANT Emit
PROPERTY Progress
CHECK_DEADLOCK FALSE
