CONSTANTS
  MaxSteps = 3000
  Family = "RN"
  Tier = "thorough"
INIT Init
NEXT Next
INVARIANT Inv
INVARIANT NamesInv
INVARIANT Emit
PROPERTY StepOK
CHECK_DEADLOCK FALSE
