CONSTANTS
  MaxSteps = 100
  Family = "block"
  Tier = "thorough"
INIT Init
NEXT Next
INVARIANT RoundTrip
INVARIANT Emit
CHECK_DEADLOCK FALSE
