----------------------------- MODULE MC_Interp -----------------------------
(***************************************************************************)
(* Bounded program families for the interpreter machine.  Init draws a     *)
(* case (program, input, output byte budget, failing read call) from the   *)
(* family selected by the constant Family; every step of every run is      *)
(* checked against the machine invariants; each finished run is printed    *)
(* for replay into the real interpreter.                                   *)
(***************************************************************************)
EXTENDS ProgFamilies, Json

NM == INSTANCE Names

CONSTANT Family

VARIABLES m, cs           \* the machine, and the case it runs (constant through the run)

-----------------------------------------------------------------------------
Case(prog, inp, budget, failAt) == [prog |-> Number(prog), inp |-> inp, budget |-> budget, failAt |-> failAt, naming |-> <<>>]
Plain(prog) == Case(prog, <<>>, -1, 0)


IOCases(z) ==
     { Case(<<p>>, i, b, 0) : p \in IOProgs, i \in IOInputs, b \in {-1} \cup 0..7 }
\cup { Case(<<p>>, i, -1, f) : p \in IOProgs, i \in IOInputs \cup IOInputsU, f \in 0..4 }
\cup { Case(<<p>>, i, -1, 0) : p \in IOProgs, i \in IOInputsB }
\cup { Case(p, <<"l1\n", "l2\n", "l3">>, b, 0) : p \in IOExprProgs, b \in {-1} \cup 0..9 }
\cup { Case(p, <<"l1\n", "l2\n", "l3">>, -1, f) : p \in IOExprProgs, f \in 1..3 }
\cup { Case(<< <<Put(N(0), "i"), SWhile(0, Lt(Var("i"), N(3)), <<SInc(0, Var("i"), 1), SListen(0, Var("x")), Say(Var("x"))>>), SayS("end")>> >>, i, b, f) :
         i \in IOInputs, b \in {-1, 0, 1, 2, 3, 5, 8}, f \in 0..4 }


-----------------------------------------------------------------------------
(* RN: programs under injective renamings into names of the three kinds, every mention in another letter case (C15) *)
AbstractNames == <<"fun", "p", "x", "r", "k", "loc", "g", "h", "i", "t", "v", "nope", "pair", "a", "b", "q", "dup", "gcd", "mm", "nn",
                   "ff", "inner", "outer", "helper", "arr", "j", "y", "grow", "d", "c", "got">>
Naming(off) == LET sc == NM!Scheme(AbstractNames, off) IN [n \in {AbstractNames[i] : i \in 1..Len(AbstractNames)} |->
                     sc[CHOOSE i \in 1..Len(AbstractNames) : AbstractNames[i] = n]]
RNOffsets == IF Tier = "quick" THEN {0, 7, 13, 25} ELSE {0, 3, 7, 13, 17, 21, 25, 31}
RNPrograms(z) == FNPrograms(z) \cup { p \in CFPrograms(z) : Tier # "quick" } \cup MUPrograms(z) \cup PRPrograms(z)
ClashNaming(k) == [n \in {"x", "y", "fun"} |-> NM!Variants(CASE n = "x" -> NM!ClashPairs[k][1] [] n = "y" -> NM!ClashPairs[k][2] [] OTHER -> <<"simple", "foo">>)]
RNCases(z) == { [Plain(p) EXCEPT !.naming = Naming(off)] : p \in RNPrograms(z), off \in RNOffsets }
              \cup { [Plain(p) EXCEPT !.naming = ClashNaming(k)] : p \in NCPrograms, k \in 1..Len(NM!ClashPairs) }

Cases(z) == CASE Family = "CF" -> { Plain(p) : p \in CFPrograms(z) }
              [] Family = "FN" -> { Plain(p) : p \in FNPrograms(z) \cup PRPrograms(z) }
              [] Family = "AR" -> { Plain(p) : p \in ARPrograms(z) }
              [] Family = "IO" -> IOCases(z)
              [] Family = "DICT" -> { Plain(p) : p \in DICTPrograms(z) }
              [] Family = "ILL" -> { Case(p, <<"in\n">>, -1, 0) : p \in ILLPrograms(z) }
              [] Family = "MU" -> { Plain(p) : p \in MUPrograms(z) \cup PRPrograms(z) }
              [] Family = "RN" -> RNCases(z)

(* a single initial state; its successors are the initial machine states of all cases (TLC computes *)
(* initial states sequentially but successors in parallel)                                          *)
Loading == [st |-> "load"]
Init == cs = <<>> /\ m = Loading
Load == /\ m.st = "load"
        /\ cs' \in Cases(0)
        /\ m' = Init0(cs'.prog, cs'.inp, cs'.budget, cs'.failAt)
Run  == m.st = "run" /\ m' = Next1(m) /\ UNCHANGED cs
Next == Load \/ Run
Spec == Init /\ [][Next]_<<m, cs>>

Inv == m.st = "load" \/ MachineInv(m)

(* C10, "nothing observable depends on time": how the input bytes are cut into the chunks that successive read calls return  *)
(* (a line arriving in pieces, several lines at once) is not observable: the run on the input delivered as ONE chunk ends the   *)
(* same way.  Checked for runs without an injected read fault (a fault position is counted in read calls).                      *)
RECURSIVE Concat(_)
Concat(q) == IF q = <<>> THEN "" ELSE Head(q) \o Concat(Tail(q))
ChunkIndependent ==
  m.st \in {"load", "run"} \/ cs.failAt # 0 \/ cs.inp = <<>> \/
  LET one == RunAll(InitQuiet(cs.prog, <<Concat(cs.inp)>>, cs.budget, 0)) IN one.st = m.st /\ one.out = m.out
NamesInv == NM!NamesOK
StepOK == [][m.st # "load" => StepProps(m, m')]_<<m, cs>>

Emit == m.st \in {"run", "load"} \/
        PrintT(<<"R", ToJson([fam |-> "exec", family |-> Family, prog |-> cs.prog, inp |-> cs.inp, budget |-> cs.budget,
                              failAt |-> cs.failAt, naming |-> cs.naming, st |-> m.st, out |-> m.out, rd |-> m.rd, evs |-> m.evs,
                              acts |-> SetToSeq(m.acts), steps |-> m.steps])>>)
=============================================================================
