---- MODULE DebugTrace ----
EXTENDS InterpTrace
Follow ==
  IF l > Len(Rec) THEN TRUE
  ELSE IF m.st = "run" THEN
     LET n == Next1(m) IN
     (EventOK(Rec[l], m, n) \/ (PrintT(<<"MISMATCH-EVENT", n.nev, "model", n.evs[1], "recorded", IF n.nev <= Len(Rec[l].evs) THEN Rec[l].evs[n.nev] ELSE "none">>) /\ FALSE))
  ELSE (EndOK(Rec[l], m) \/ (PrintT(<<"MISMATCH-END", "model", m.st, m.out, m.rd, m.nev, "recorded", Rec[l].st, Rec[l].out, Rec[l].rd, Len(Rec[l].evs), Rec[l].outcome>>) /\ FALSE))
====
