------------------------------- MODULE Parser -------------------------------
(***************************************************************************)
(* Recursive-descent RECOGNISER mirroring src/frontend/parser.rs           *)
(* production by production.  Input: a source text; it is lexed by the     *)
(* lexer model (comments dropped) and parsed into the tree records of      *)
(* Interp.tla, or rejected with the line the implementation reports:       *)
(* the start line of the current token, or the lexer's current line at     *)
(* the end of the tokens.                                                  *)
(*                                                                         *)
(* Every production takes the context T = [src, toks, eof] and a position  *)
(* p into toks and returns [ok |-> TRUE, t |-> tree, p |-> next position]  *)
(* or [ok |-> FALSE, line |-> n].  Names come out as concrete name tuples  *)
(* (<<"simple", spelling>> ...).  The `parsing_list` flag of the           *)
(* implementation is the parameter inList.                                 *)
(***************************************************************************)
EXTENDS Lexer

V == INSTANCE Values
Myst == V!Myst
Null == V!Null
Bool(b) == V!Bool(b)
Str(x) == V!Str(x)
ParseNum(x) == V!ParseNum(x)

OK(t, p) == [ok |-> TRUE, t |-> t, p |-> p]
ER(line) == [ok |-> FALSE, line |-> line]

Ctx0(src) == LET all == LexAll(src) IN
             [src |-> src, toks |-> SelectSeq(all, LAMBDA t : t.id # "comment"), eof |-> 1 + CountNl(src, 1, Len(src))]
Has(T, p) == p <= Len(T.toks)
Id(T, p) == IF Has(T, p) THEN T.toks[p].id ELSE "eof"
Sp(T, p) == IF Has(T, p) THEN T.toks[p].sp ELSE ""
ErrAt(T, p) == ER(IF Has(T, p) THEN T.toks[p].sl ELSE T.eof)
IsWordSp(sp) == sp # "" /\ AllChars(sp, IsWordChar)
Expect(T, p, id) == IF Id(T, p) = id THEN OK(<<>>, p + 1) ELSE ErrAt(T, p)

(* tree constructors (as in Interp.tla; lines are not produced) *)
ENone == [e |-> "none"]
TLit(v) == [e |-> "lit", v |-> v]
TVar(n) == [e |-> "var", n |-> n]
TPro == [e |-> "pro"]

-----------------------------------------------------------------------------
(* names *)
ParseVarName(T, p) ==      \* [ok, found, t, p]
  CASE Id(T, p) = "prefix" ->
         IF Has(T, p + 1) /\ IsWordSp(Sp(T, p + 1)) THEN [ok |-> TRUE, found |-> TRUE, t |-> <<"common", Sp(T, p), Sp(T, p + 1)>>, p |-> p + 2]
         ELSE [ok |-> FALSE, line |-> ErrAt(T, p + 1).line]
    [] Id(T, p) = "word" /\ IsUppercase(CharAt(Sp(T, p), 1)) ->
         LET RECURSIVE Run(_)
             Run(q) == IF Id(T, q) = "word" /\ IsUppercase(CharAt(Sp(T, q), 1)) THEN Run(q + 1) ELSE q
             e == Run(p)
         IN IF e = p + 1 THEN [ok |-> TRUE, found |-> TRUE, t |-> <<"simple", Sp(T, p)>>, p |-> e]
            ELSE [ok |-> TRUE, found |-> TRUE, t |-> <<"proper">> \o [i \in 1..(e - p) |-> Sp(T, p + i - 1)], p |-> e]
    [] Id(T, p) = "word" -> [ok |-> TRUE, found |-> TRUE, t |-> <<"simple", Sp(T, p)>>, p |-> p + 1]
    [] OTHER -> [ok |-> TRUE, found |-> FALSE, p |-> p]

ParseIdentifier(T, p) ==   \* [ok, found, t (expression), p]
  LET v == ParseVarName(T, p) IN
  IF ~v.ok THEN v
  ELSE IF v.found THEN [ok |-> TRUE, found |-> TRUE, t |-> TVar(v.t), p |-> v.p]
  ELSE IF Id(T, p) = "pronoun" THEN [ok |-> TRUE, found |-> TRUE, t |-> TPro, p |-> p + 1]
  ELSE [ok |-> TRUE, found |-> FALSE, p |-> p]
ExpectIdentifier(T, p) == LET i == ParseIdentifier(T, p) IN IF ~i.ok THEN i ELSE IF i.found THEN OK(i.t, i.p) ELSE ErrAt(T, p)
ExpectVarName(T, p) == LET v == ParseVarName(T, p) IN IF ~v.ok THEN v ELSE IF v.found THEN OK(v.t, v.p) ELSE ErrAt(T, p)

LiteralIds == {"mysterious", "null", "number", "string", "empty", "true", "false"}
LitOf(T, p) ==
  CASE Id(T, p) = "mysterious" -> Myst [] Id(T, p) = "null" -> Null
    [] Id(T, p) = "true" -> Bool(TRUE) [] Id(T, p) = "false" -> Bool(FALSE)
    [] Id(T, p) = "empty" -> Str("")
    [] Id(T, p) = "string" -> Str(Slice(Sp(T, p), 2, Len(Sp(T, p)) - 1))
    [] Id(T, p) = "number" -> ParseNum(Sp(T, p))

-----------------------------------------------------------------------------
(* expressions.  level: "logical" < "comparison" < "term" < "factor" < "unary" *)
BinOpOf(id) == CASE id \in {"plus", "with"} -> "plus" [] id = "minus" -> "minus" [] id = "multiply" -> "times" [] id = "divide" -> "over"
                 [] id = "and" -> "and" [] id = "or" -> "or" [] id = "nor" -> "nor"
                 [] id \in {"greater", "bigger"} -> "gt" [] id \in {"greatereq", "big"} -> "ge"
                 [] id \in {"less", "smaller"} -> "lt" [] id \in {"lesseq", "small"} -> "le" [] id = "isnt" -> "ne"
LevelOps(level) == CASE level = "logical" -> {"and", "or", "nor"}
                     [] level = "term" -> {"plus", "with", "minus"}
                     [] level = "factor" -> {"multiply", "divide"}
                     [] level = "symcmp" -> {"less", "lesseq", "greater", "greatereq", "isnt"}
NextLevel(level) == CASE level = "logical" -> "comparison" [] level = "term" -> "factor" [] level = "factor" -> "unary" [] level = "symcmp" -> "term"

RECURSIVE ParseLevel(_, _, _, _)      \* T, p, level, inList
RECURSIVE ParseList(_, _, _, _)       \* an operand list of `level` expressions: t = sequence of expressions
RECURSIVE BinLoop(_, _, _, _, _)      \* T, p, level, inList, left operand
RECURSIVE IsChain(_, _, _, _)
RECURSIVE ParseUnary(_, _, _)
RECURSIVE ParsePrimary(_, _, _)
RECURSIVE ParseNsPrimary(_, _, _)
RECURSIVE Subscripts(_, _, _, _)
RECURSIVE ParseParams(_, _, _, _)     \* T, p, kind ("unary" | "varname"), acc

ParseExpr(T, p, inList) == ParseLevel(T, p, "logical", inList)

ParseList(T, p, level, inList) ==
  LET first == ParseLevel(T, p, level, inList) IN
  IF ~first.ok THEN first
  ELSE IF inList THEN OK(<<first.t>>, first.p)                   \* nested lists are not allowed
  ELSE LET RECURSIVE More(_, _)
           More(acc, q) ==
             IF Id(T, q) # "comma" THEN OK(acc, q)
             ELSE LET q2 == IF Id(T, q + 1) = "and" THEN q + 2 ELSE q + 1
                      e == ParseLevel(T, q2, level, TRUE)
                  IN IF ~e.ok THEN e ELSE More(Append(acc, e.t), e.p)
       IN More(<<first.t>>, first.p)

BinLoop(T, p, level, inList, left) ==
  IF Id(T, p) \notin LevelOps(level) THEN OK(left, p)
  ELSE LET rhs == ParseList(T, p + 1, NextLevel(level), inList) IN
       IF ~rhs.ok THEN rhs
       ELSE BinLoop(T, rhs.p, level, inList, [e |-> "bin", op |-> BinOpOf(Id(T, p)), l |-> left, r |-> rhs.t])

(* the `is` family: is / 's / 're [as big as | bigger than | not] term, repeated *)
IsChain(T, p, inList, left) ==
  IF Id(T, p) \notin {"is", "apos_s", "apos_re"} THEN OK(left, p)
  ELSE LET q == p + 1
           opr == CASE Id(T, q) = "as" ->
                         IF Id(T, q + 1) \notin {"big", "small"} THEN ErrAt(T, q + 1)
                         ELSE IF Id(T, q + 2) # "as" THEN ErrAt(T, q + 2)
                         ELSE OK(BinOpOf(Id(T, q + 1)), q + 3)
                    [] Id(T, q) \in {"bigger", "smaller"} ->
                         IF Id(T, q + 1) # "than" THEN ErrAt(T, q + 1) ELSE OK(BinOpOf(Id(T, q)), q + 2)
                    [] Id(T, q) = "not" -> OK("ne", q + 1)
                    [] OTHER -> OK("eq", q)
       IN IF ~opr.ok THEN opr
          ELSE LET rhs == ParseLevel(T, opr.p, "term", inList) IN
               IF ~rhs.ok THEN rhs
               ELSE IsChain(T, rhs.p, inList, [e |-> "bin", op |-> opr.t, l |-> left, r |-> <<rhs.t>>])

ParseLevel(T, p, level, inList) ==
  CASE level = "unary" -> ParseUnary(T, p, inList)
    [] level = "comparison" ->
         LET t == ParseLevel(T, p, "term", inList) IN
         IF ~t.ok THEN t
         ELSE IF Id(T, t.p) \in {"is", "apos_s", "apos_re"} THEN IsChain(T, t.p, inList, t.t)
         ELSE BinLoop(T, t.p, "symcmp", inList, t.t)
    [] OTHER ->
         LET t == ParseLevel(T, p, NextLevel(level), inList) IN
         IF ~t.ok THEN t ELSE BinLoop(T, t.p, level, inList, t.t)

ParseUnary(T, p, inList) ==
  IF Id(T, p) \in {"minus", "not"} THEN
    LET x == ParseUnary(T, p + 1, inList) IN
    IF ~x.ok THEN x ELSE OK([e |-> "un", op |-> IF Id(T, p) = "minus" THEN "neg" ELSE "not", x |-> x.t], x.p)
  ELSE ParsePrimary(T, p, inList)

Subscripts(T, p, inList, e) ==
  IF Id(T, p) # "at" THEN OK(e, p)
  ELSE LET k == ParseNsPrimary(T, p + 1, inList) IN
       IF ~k.ok THEN k ELSE Subscripts(T, k.p, inList, [e |-> "idx", a |-> e, k |-> k.t])

ParsePrimary(T, p, inList) ==
  LET x == ParseNsPrimary(T, p, inList) IN IF ~x.ok THEN x ELSE Subscripts(T, x.p, inList, x.t)

ParseParams(T, p, kind, acc) ==
  LET item == IF kind = "unary" THEN ParseUnary(T, p, FALSE) ELSE ExpectVarName(T, p) IN
  IF ~item.ok THEN item
  ELSE LET acc2 == Append(acc, item.t) q == item.p IN
       IF Id(T, q) \notin {"ampersand", "comma", "apos_n", "and"} THEN OK(acc2, q)
       ELSE ParseParams(T, IF Id(T, q) = "comma" /\ Id(T, q + 1) = "and" THEN q + 2 ELSE q + 1, kind, acc2)

ParseNsPrimary(T, p, inList) ==
  IF Id(T, p) = "pronoun" THEN OK(TPro, p + 1)
  ELSE LET v == ParseVarName(T, p) IN
       IF ~v.ok THEN v
       ELSE IF v.found THEN
              IF Id(T, v.p) = "taking" THEN
                LET a == ParseParams(T, v.p + 1, "unary", <<>>) IN
                IF ~a.ok THEN a ELSE OK([e |-> "call", f |-> v.t, args |-> a.t], a.p)
              ELSE OK(TVar(v.t), v.p)
       ELSE IF Id(T, p) \in LiteralIds THEN OK(TLit(LitOf(T, p)), p + 1)
       ELSE IF Id(T, p) = "roll" THEN
              LET a == ParsePrimary(T, p + 1, inList) IN IF ~a.ok THEN a ELSE OK([e |-> "roll", a |-> a.t], a.p)
       ELSE ErrAt(T, p)

ParseLhs(T, p) ==
  LET i == ExpectIdentifier(T, p) IN IF ~i.ok THEN i ELSE Subscripts(T, i.p, FALSE, i.t)

-----------------------------------------------------------------------------
(* poetic literals *)
IsPoeticTok(T, p) == Has(T, p) /\ (Id(T, p) \in {"dot", "comma", "apos_s", "apos_re"} \/ (Id(T, p) = "minus" /\ Sp(T, p) = "-") \/ IsWordSp(Sp(T, p)))
ParsePoeticLiteral(T, p) ==
  IF Id(T, p) = "minus" /\ Sp(T, p) = "-" THEN ErrAt(T, p)
  ELSE LET RECURSIVE L(_, _)
           L(acc, q) ==
             IF ~IsPoeticTok(T, q) THEN (IF acc = <<>> THEN ErrAt(T, q) ELSE OK([e |-> "plit", elems |-> acc], q))
             ELSE CASE Id(T, q) = "comma" -> L(acc, q + 1)
                    [] Id(T, q) = "dot" -> L(Append(acc, [k |-> "d"]), q + 1)
                    [] Id(T, q) \in {"apos_s", "apos_re"} -> L(Append(acc, [k |-> "s", s |-> Sp(T, q)]), q + 1)
                    [] Id(T, q) = "minus" /\ Sp(T, q) = "-" ->
                         IF ~Has(T, q + 1) THEN ER(T.eof)
                         ELSE IF IsWordSp(Sp(T, q + 1)) THEN L(Append(acc, [k |-> "s", s |-> "-" \o Sp(T, q + 1)]), q + 2)
                         ELSE ErrAt(T, q + 1)
                    [] OTHER -> L(Append(acc, [k |-> "w", s |-> Sp(T, q)]), q + 1)
       IN L(<<>>, p)

(* the raw text of a poetic string: from just after `says` and exactly one blank to the next newline token *)
ParsePoeticString(T, p) ==      \* p: position of the says / say token
  LET RECURSIVE FindNl(_)
      FindNl(q) == IF ~Has(T, q) \/ Id(T, q) = "newline" THEN q ELSE FindNl(q + 1)
      nl == FindNl(p + 1)
      from == CharIndexOfByte(T.src, T.toks[p].e)
      to == IF Has(T, nl) THEN CharIndexOfByte(T.src, T.toks[nl].b) ELSE Len(T.src) + 1
      raw == Slice(T.src, from, to - 1)
  IN IF raw # "" /\ CharAt(raw, 1) = " " THEN OK(Slice(raw, 2, Len(raw)), nl) ELSE ErrAt(T, nl)

-----------------------------------------------------------------------------
(* statements *)
ExpectEol(T, p) ==
  LET q == IF Id(T, p) \in {"comma", "dot"} THEN p + 1 ELSE p IN
  IF ~Has(T, q) THEN OK(<<>>, q) ELSE IF Id(T, q) = "newline" THEN OK(<<>>, q + 1) ELSE ErrAt(T, q)

St(t, p) == [ok |-> TRUE, none |-> FALSE, t |-> t, p |-> p]
NoStmt(p) == [ok |-> TRUE, none |-> TRUE, p |-> p]

RECURSIVE ParseBlock(_, _, _)
RECURSIVE ParseStatement(_, _)

IsIfElse(s) == s.s = "if" /\ s.hasElse

ParseBlock(T, p, isFunc) ==
  IF Id(T, p) = "newline" THEN OK(<<>>, p + 1)
  ELSE LET RECURSIVE B(_, _)
           B(acc, q) ==
             LET s == ParseStatement(T, q) IN
             IF ~s.ok THEN s
             ELSE IF s.none THEN OK(acc, q)
             ELSE IF isFunc /\ IsIfElse(s.t) THEN OK(Append(acc, s.t), s.p)
             ELSE LET e == ExpectEol(T, s.p) IN IF ~e.ok THEN e ELSE B(Append(acc, s.t), e.p)
       IN B(<<>>, p)

MutOp(id) == CASE id = "cut" -> "cut" [] id = "join" -> "join" [] id = "cast" -> "cast"
DirOf(id) == CASE id = "up" -> "up" [] id = "down" -> "down" [] id = "round" -> "nearest"
IsSpelled(T, p, w) == Has(T, p) /\ Lower(Sp(T, p)) = w

ParseStatement(T, p) ==
  LET id == Id(T, p) IN
  CASE ~Has(T, p) \/ id \in {"else", "newline"} -> NoStmt(p)
    [] id = "put" ->
         LET e == ParseExpr(T, p + 1, FALSE) IN
         IF ~e.ok THEN e ELSE
         LET i == Expect(T, e.p, "into") IN
         IF ~i.ok THEN i ELSE
         LET d == ParseLhs(T, i.p) IN
         IF ~d.ok THEN d ELSE St([s |-> "assign", dest |-> d.t, op |-> "none", vals |-> <<e.t>>], d.p)
    [] id = "let" ->
         LET d == ParseLhs(T, p + 1) IN
         IF ~d.ok THEN d ELSE
         LET b == Expect(T, d.p, "be") IN
         IF ~b.ok THEN b ELSE
         LET hasOp == Id(T, b.p) \in {"plus", "with", "minus", "multiply", "divide"}
             v == ParseList(T, IF hasOp THEN b.p + 1 ELSE b.p, "logical", FALSE) IN
         IF ~v.ok THEN v ELSE St([s |-> "assign", dest |-> d.t, op |-> IF hasOp THEN BinOpOf(Id(T, b.p)) ELSE "none", vals |-> v.t], v.p)
    [] id \in {"word", "prefix", "pronoun"} ->
         LET i == ExpectIdentifier(T, p) IN
         IF ~i.ok THEN i ELSE
         CASE Id(T, i.p) = "takes" ->
                IF i.t.e # "var" THEN ErrAt(T, i.p) ELSE
                LET ps == ParseParams(T, i.p + 1, "varname", <<>>) IN
                IF ~ps.ok THEN ps ELSE
                LET e == ExpectEol(T, ps.p) IN
                IF ~e.ok THEN e ELSE
                LET b == ParseBlock(T, e.p, TRUE) IN
                IF ~b.ok THEN b ELSE St([s |-> "func", name |-> i.t.n, ps |-> ps.t, body |-> b.t], b.p)
           [] Id(T, i.p) = "taking" ->
                IF i.t.e # "var" THEN ErrAt(T, i.p) ELSE
                LET a == ParseParams(T, i.p + 1, "unary", <<>>) IN
                IF ~a.ok THEN a ELSE St([s |-> "callst", f |-> i.t.n, args |-> a.t], a.p)
           [] OTHER ->
                LET d == Subscripts(T, i.p, FALSE, i.t) IN
                IF ~d.ok THEN d ELSE
                IF Id(T, d.p) \in {"says", "say"} THEN
                  LET t == ParsePoeticString(T, d.p) IN
                  IF ~t.ok THEN t ELSE St([s |-> "pstr", dest |-> d.t, str |-> t.t], t.p)
                ELSE IF Id(T, d.p) \in {"is", "apos_s", "apos_re"} THEN
                  LET q == d.p + 1 IN
                  IF ~Has(T, q) THEN ER(T.eof)
                  ELSE IF Id(T, q) \in LiteralIds \/ (Id(T, q) = "minus" /\ Sp(T, q) = "-" /\ Id(T, q + 1) = "number") THEN
                         LET e == ParseExpr(T, q, FALSE) IN IF ~e.ok THEN e ELSE St([s |-> "pnum", dest |-> d.t, e |-> e.t], e.p)
                  ELSE LET l == ParsePoeticLiteral(T, q) IN IF ~l.ok THEN l ELSE St([s |-> "pnum", dest |-> d.t, e |-> l.t], l.p)
                ELSE ErrAt(T, d.p)
    [] id = "if" ->
         LET c == ParseExpr(T, p + 1, FALSE) IN
         IF ~c.ok THEN c ELSE
         LET e == ExpectEol(T, c.p) IN
         IF ~e.ok THEN e ELSE
         LET th == ParseBlock(T, e.p, FALSE) IN
         IF ~th.ok THEN th ELSE
         IF Id(T, th.p) # "else" THEN St([s |-> "if", c |-> c.t, th |-> th.t, hasElse |-> FALSE, el |-> <<>>], th.p)
         ELSE IF Has(T, th.p + 1) /\ Id(T, th.p + 1) # "newline" THEN ErrAt(T, th.p + 1)
         ELSE LET el == ParseBlock(T, IF Has(T, th.p + 1) THEN th.p + 2 ELSE th.p + 1, FALSE) IN
              IF ~el.ok THEN el ELSE St([s |-> "if", c |-> c.t, th |-> th.t, hasElse |-> TRUE, el |-> el.t], el.p)
    [] id \in {"while", "until"} ->
         LET c == ParseExpr(T, p + 1, FALSE) IN
         IF ~c.ok THEN c ELSE
         LET e == ExpectEol(T, c.p) IN
         IF ~e.ok THEN e ELSE
         LET b == ParseBlock(T, e.p, FALSE) IN
         IF ~b.ok THEN b ELSE St([s |-> id, c |-> c.t, body |-> b.t], b.p)
    [] id \in {"build", "knock"} ->
         LET sfx == IF id = "build" THEN "up" ELSE "down"
             d == ExpectIdentifier(T, p + 1) IN
         IF ~d.ok THEN d ELSE
         LET u == Expect(T, d.p, sfx) IN
         IF ~u.ok THEN u ELSE
         LET RECURSIVE Cnt(_, _)
             Cnt(n, q) == LET q1 == IF Id(T, q) = "comma" THEN q + 1 ELSE q IN
                          IF Id(T, q1) = sfx THEN Cnt(n + 1, q1 + 1) ELSE [n |-> n, p |-> q1]
             r == Cnt(1, u.p)
         IN St([s |-> IF id = "build" THEN "inc" ELSE "dec", dest |-> d.t, n |-> r.n], r.p)
    [] id \in {"say", "sayalias"} ->
         LET e == ParseExpr(T, p + 1, FALSE) IN IF ~e.ok THEN e ELSE St([s |-> "say", e |-> e.t], e.p)
    [] id = "listen" ->
         IF Id(T, p + 1) # "to" THEN St([s |-> "listen", dest |-> ENone], p + 1)
         ELSE LET d == ParseLhs(T, p + 2) IN IF ~d.ok THEN d ELSE St([s |-> "listen", dest |-> d.t], d.p)
    [] id \in {"cut", "join", "cast"} ->
         LET o == ParsePrimary(T, p + 1, FALSE) IN
         IF ~o.ok THEN o ELSE
         LET d == IF Id(T, o.p) = "into" THEN ParseLhs(T, o.p + 1) ELSE OK(ENone, o.p) IN
         IF ~d.ok THEN d ELSE
         IF d.t.e = "none" /\ o.t.e \notin {"var", "pro"} THEN ErrAt(T, d.p) ELSE
         LET w == IF Id(T, d.p) = "with" THEN ParseExpr(T, d.p + 1, FALSE) ELSE OK(ENone, d.p) IN
         IF ~w.ok THEN w ELSE St([s |-> "mut", op |-> MutOp(id), operand |-> o.t, dest |-> d.t, param |-> w.t], w.p)
    [] id = "turn" ->
         LET has1 == Id(T, p + 1) \in {"up", "down", "round"}
             e == ParseExpr(T, IF has1 THEN p + 2 ELSE p + 1, FALSE) IN
         IF ~e.ok THEN e ELSE
         IF has1 THEN St([s |-> "turn", dir |-> DirOf(Id(T, p + 1)), e |-> e.t], e.p)
         ELSE IF Id(T, e.p) \in {"up", "down", "round"} THEN St([s |-> "turn", dir |-> DirOf(Id(T, e.p)), e |-> e.t], e.p + 1)
         ELSE ErrAt(T, e.p)
    [] id = "break" ->
         IF IsSpelled(T, p + 1, "it") THEN (LET d == Expect(T, p + 2, "down") IN IF ~d.ok THEN d ELSE St([s |-> "break"], d.p))
         ELSE St([s |-> "break"], p + 1)
    [] id = "continue" -> St([s |-> "continue"], p + 1)
    [] id = "take" ->
         IF ~IsSpelled(T, p + 1, "it") THEN ErrAt(T, p + 1)
         ELSE IF Id(T, p + 2) # "to" THEN ErrAt(T, p + 2)
         ELSE IF ~IsSpelled(T, p + 3, "the") THEN ErrAt(T, p + 3)
         ELSE IF Id(T, p + 4) # "top" THEN ErrAt(T, p + 4)
         ELSE St([s |-> "continue"], p + 5)
    [] id = "rock" ->
         LET a == ParsePrimary(T, p + 1, FALSE) IN
         IF ~a.ok THEN a ELSE
         IF Id(T, a.p) = "with" THEN
           (LET v == ParseList(T, a.p + 1, "logical", FALSE) IN IF ~v.ok THEN v ELSE St([s |-> "rock", a |-> a.t, vals |-> v.t], v.p))
         ELSE IF Id(T, a.p) = "like" THEN
           (LET l == ParsePoeticLiteral(T, a.p + 1) IN IF ~l.ok THEN l ELSE St([s |-> "rock", a |-> a.t, vals |-> <<l.t>>], l.p))
         ELSE St([s |-> "rock", a |-> a.t, vals |-> <<>>], a.p)
    [] id = "roll" ->
         LET a == ParsePrimary(T, p + 1, FALSE) IN
         IF ~a.ok THEN a ELSE
         IF Id(T, a.p) # "into" THEN St([s |-> "rollst", a |-> a.t, dest |-> ENone], a.p)
         ELSE LET d == ParseLhs(T, a.p + 1) IN IF ~d.ok THEN d ELSE St([s |-> "rollst", a |-> a.t, dest |-> d.t], d.p)
    [] id = "return" ->
         LET q == IF IsSpelled(T, p, "give") /\ Id(T, p + 1) = "back" THEN p + 2 ELSE p + 1
             e == ParseExpr(T, q, FALSE) IN
         IF ~e.ok THEN e ELSE St([s |-> "return", e |-> e.t], IF Id(T, e.p) = "back" THEN e.p + 1 ELSE e.p)
    [] OTHER -> ErrAt(T, p)

(* the whole program: non-empty blocks; a stray `else` is rejected (cc37bb4) *)
ParseProgram(src) ==
  LET T == Ctx0(src)
      RECURSIVE P(_, _, _)
      P(acc, p, fuel) ==
        IF ~Has(T, p) THEN OK(acc, p)
        ELSE IF fuel = 0 THEN [ok |-> FALSE, line |-> -1]               \* the top-level loop does not terminate
        ELSE IF Id(T, p) = "else" THEN ErrAt(T, p)
        ELSE LET b == ParseBlock(T, p, FALSE) IN
             IF ~b.ok THEN b ELSE P(IF b.t = <<>> THEN acc ELSE Append(acc, b.t), b.p, fuel - 1)
  IN P(<<>>, 1, Len(T.toks) + 1)

Verdict(src) == LET r == ParseProgram(src) IN IF r.ok THEN [ok |-> TRUE, tree |-> r.t] ELSE [ok |-> FALSE, line |-> r.line]
=============================================================================
