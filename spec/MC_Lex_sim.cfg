CONSTANTS
  SuffixUsesStaleLine = FALSE
  Alphabet <- AlphaAll
  MaxLen = 60
  Prefix <- PrefixNone
SPECIFICATION SpecFast
INVARIANT WellFormed
INVARIANT Terminates
INVARIANT CursorInRange
INVARIANT Complete
INVARIANT Emit
CHECK_DEADLOCK FALSE
