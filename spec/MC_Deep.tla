------------------------------- MODULE MC_Deep -------------------------------
(***************************************************************************)
(* Depth and length boundaries (C01: "nesting depth within a few hundred   *)
(* levels"; C09: "within modest resource bounds").  The same renderer,     *)
(* machine and linter as everywhere else, applied to programs whose SIZE   *)
(* is the parameter: d-fold nested operators, subscripts, calls, blocks,   *)
(* function definitions; call chains d deep at run time; n statements, n   *)
(* list operands, n-word poetic literals, n-character strings.  Every case *)
(* is rendered (canonically and under one mixed tape), run by the machine  *)
(* and linted by the model; the real front end, interpreter and linter     *)
(* must neither crash nor disagree on outcome, output and report.          *)
(* Statement events are not compared here (a snapshot of a 300-deep scope  *)
(* stack after each of thousands of statements is not worth its size).     *)
(***************************************************************************)
EXTENDS MC_Grammar

CONSTANT Depths, Lengths, CallDepths

RECURSIVE NotN(_, _)
NotN(d, e) == IF d = 0 THEN e ELSE Un("not", NotN(d - 1, e))
RECURSIVE LeftChain(_, _)
LeftChain(op, d) == IF d = 0 THEN N(1) ELSE B(op, LeftChain(op, d - 1), N(1))
ListN(op, n) == Bin(op, N(0), [i \in 1..n |-> N(1)])
RECURSIVE IdxN(_)
IdxN(d) == IF d = 0 THEN X ELSE Idx(IdxN(d - 1), N(0))
RECURSIVE CallN(_)
CallN(d) == IF d = 0 THEN N(1) ELSE Call("ff", <<CallN(d - 1)>>)
RECURSIVE RollN(_)
RollN(d) == IF d = 0 THEN X ELSE RollE(RollN(d - 1))

RECURSIVE IfN(_, _)
IfN(d, inner) == IF d = 0 THEN inner ELSE <<SIf(0, Lit(Bool(TRUE)), IfN(d - 1, inner), FALSE, <<>>)>>
RECURSIVE ElseN(_, _)
ElseN(d, inner) == IF d = 0 THEN inner ELSE <<SIf(0, Lit(Bool(FALSE)), <<SayS("no")>>, TRUE, ElseN(d - 1, inner))>>
RECURSIVE WhileN(_, _)
WhileN(d, inner) == IF d = 0 THEN inner ELSE <<SWhile(0, Lt(Var("i"), N(1)), WhileN(d - 1, inner))>>
RECURSIVE FuncN(_)
FuncN(d) == IF d = 0 THEN <<SReturn(0, Var("a"))>> ELSE <<SFunc(0, "ff", <<"a">>, FuncN(d - 1)), SReturn(0, Call("ff", <<Var("a")>>))>>

Ident == SFunc(0, "ff", <<"a">>, <<SReturn(0, Var("a"))>>)
(* a call chain n deep at run time: count down through recursive calls, count up on the way back *)
Rec(n) == << <<SFunc(0, "ff", <<"a">>, <<SIf(0, B("eq", Var("a"), N(0)), <<SReturn(0, N(0))>>, FALSE, <<>>),
                                         Put(B("minus", Var("a"), N(1)), "b"),
                                         SReturn(0, B("plus", Call("ff", <<Var("b")>>), N(1)))>>)>>,
             <<Say(Call("ff", <<N(n)>>))>> >>

RECURSIVE RepStr(_, _)
RepStr(s, n) == IF n = 0 THEN "" ELSE s \o RepStr(s, n - 1)

T(tag, tree) == <<tag, tree>>
DeepTrees(d) == {
  T("not", << <<Put(Lit(Bool(TRUE)), "x"), Say(NotN(d, X))>> >>),
  T("leftchain", << <<Say(LeftChain("plus", d)), Say(LeftChain("minus", d)), Say(LeftChain("and", d))>> >>),
  T("idx", << <<Say(IdxN(d)), SayS("unreachable")>> >>),
  T("calls", << <<Ident>>, <<Say(CallN(d))>> >>),
  T("rolls", << <<SRock(0, X, <<N(1)>>), Say(RollN(d))>> >>),
  T("ifs", << IfN(d, <<SayS("inner")>>), <<SayS("after")>> >>),
  T("elses", << ElseN(d, <<SayS("last")>>), <<SayS("after")>> >>),
  T("whiles", << <<Put(N(0), "i")>> \o WhileN(d, <<SInc(0, Var("i"), 1), SayS("body")>>), <<SayS("after")>> >>),
  T("funcs", << FuncN(d), <<Say(Call("ff", <<N(7)>>))>> >>),
  T("ifs-in-func", << <<SFunc(0, "ff", <<"a">>, IfN(d, <<SReturn(0, Var("a"))>>))>>, <<Say(Call("ff", <<N(3)>>))>> >>)
}
LongTrees(n) == {
  T("stmts", << [i \in 1..n |-> Say(N(i % 7))] >>),
  T("blocks", [i \in 1..n |-> <<Put(N(i % 5), "x")>>]),
  T("lists", << <<Say(ListN("plus", n)), Say(ListN("times", n)), SRock(0, X, [i \in 1..n |-> N(1)]), Say(X)>> >>),
  T("poetic", << <<SPNum(0, X, PLit([i \in 1..n |-> PW("ab")])), SPNum(0, Y, PLit(<<PW("a"), PD>> \o [i \in 1..n |-> PW("abc")]))>> >>),
  T("strings", << <<Put(S(RepStr("ab", n)), "x"), Say(X), SMut(0, "cut", X, Y, ENone), Say(Y), SPStr(0, Z, RepStr("word ", n)), Say(Z)>> >>),
  T("args", << <<Ident>>, <<Say(Call("ff", [i \in 1..n |-> N(1)]))>> >>),
  T("params", << <<SFunc(0, "ff", [i \in 1..(IF n > 30 THEN 30 ELSE n) |-> AbstractNames[i]], <<SReturn(0, Var("x"))>>)>>, <<Say(Call("ff", <<N(1)>>))>> >>)
}
Cases(z) == UNION { DeepTrees(d) : d \in Depths } \cup UNION { LongTrees(n) : n \in Lengths } \cup { T("recursion", Rec(n)) : n \in CallDepths }

DInit == c = [k |-> "init"]
DLoad == /\ c.k = "init"
         /\ \E t \in { p \in Cases(0) : ProgramOK(p[2]) }, tp \in E2ETapesFew : c' = [k |-> "e2epick", tree |-> t[2], inp |-> <<>>, tape |-> tp, off |-> 0]
QuietCase(tree, inp, tp, off) ==
  LET nm == Naming(off)
      numbered == Number(tree)
      r == Render(tp, nm, numbered)
      fin == RunAll(InitQuiet(numbered, inp, -1, 0))
      rep == LI!Report(numbered)
  IN [k |-> "e2e", text |-> r.text, naming |-> nm, tape |-> tp, lines |-> r.lines, inp |-> inp,
      st |-> fin.st, out |-> fin.out, rd |-> fin.rd, evs |-> <<>>,
      report |-> [n \in 1..Len(rep) |-> [rep[n] EXCEPT !.line = r.lines[rep[n].line]]]]
DExpand == c.k = "e2epick" /\ c' = QuietCase(c.tree, c.inp, c.tape, c.off)
DNext == DLoad \/ DExpand
(* every family tree must be a program some text denotes: a case dropped by the ProgramOK filter would be a silent hole *)
ASSUME \A p \in Cases(0) : ProgramOK(p[2]) \/ (PrintT(<<"INEXPRESSIBLE", p[1]>>) /\ FALSE)
DEmit == c.k \in {"init", "e2epick"} \/
         PrintT(<<"R", ToJson([fam |-> "e2e", noevs |-> TRUE, text |-> c.text, naming |-> c.naming, tape |-> c.tape, lines |-> c.lines,
                               inp |-> c.inp, budget |-> -1, failAt |-> 0, st |-> c.st, out |-> c.out, rd |-> c.rd,
                               evs |-> c.evs, report |-> c.report])>>)
=============================================================================
