CONSTANTS
  SuffixUsesStaleLine = FALSE
  Alphabet <- SoupTiny
  MaxLen = 3
  Prefix <- PrefixNone
SPECIFICATION SpecFast
INVARIANT WellFormed
INVARIANT Terminates
INVARIANT CursorInRange
INVARIANT Complete
INVARIANT Emit
CHECK_DEADLOCK FALSE
