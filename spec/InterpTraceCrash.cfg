CONSTANTS
  MaxSteps = 200000
  CrashOnly = TRUE
SPECIFICATION Spec
INVARIANT Inv
CONSTRAINT Track
POSTCONDITION Accepted
CHECK_DEADLOCK FALSE
