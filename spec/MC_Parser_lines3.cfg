CONSTANTS
  SuffixUsesStaleLine = FALSE
  Alphabet <- SoupLines
  MaxLen = 3
INIT Init
NEXT Next
INVARIANT ParserTotal
INVARIANT Emit
CHECK_DEADLOCK FALSE
