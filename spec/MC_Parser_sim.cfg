CONSTANTS
  SuffixUsesStaleLine = FALSE
  Alphabet <- SoupFull
  MaxLen = 25
INIT Init
NEXT Next
INVARIANT ParserTotal
INVARIANT Emit
CHECK_DEADLOCK FALSE
