CONSTANTS
  SuffixUsesStaleLine = FALSE
  Alphabet <- SoupElse
  MaxLen = 4
INIT Init
NEXT Next
INVARIANT ParserTotal
INVARIANT Emit
CHECK_DEADLOCK FALSE
