CONSTANT Tier = "quick"
CONSTANT Kinds = {"say"}
INIT Init
NEXT Next
INVARIANT TotalResult
INVARIANT LawsHold
INVARIANT ArrayLaws
INVARIANT MutationLaws
INVARIANT Emit
CHECK_DEADLOCK FALSE
