CONSTANT Tier = "quick"
CONSTANT Kinds = {"cut","join","cast","turn"}
INIT Init
NEXT Next
INVARIANT TotalResult
INVARIANT LawsHold
INVARIANT ArrayLaws
INVARIANT MutationLaws
INVARIANT Emit
CHECK_DEADLOCK FALSE
