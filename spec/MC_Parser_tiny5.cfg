CONSTANTS
  SuffixUsesStaleLine = FALSE
  Alphabet <- SoupTiny
  MaxLen = 5
INIT Init
NEXT Next
INVARIANT ParserTotal
INVARIANT Emit
CHECK_DEADLOCK FALSE
