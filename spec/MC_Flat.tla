------------------------------- MODULE MC_Flat -------------------------------
(***************************************************************************)
(* Length boundaries of the front end (C01): texts that are long but FLAT. *)
(* A unit u of one or two characters is repeated inside a context where    *)
(* repetition adds no nesting: between two tokens, before the first or     *)
(* after the last statement, inside a comment, inside a string literal,    *)
(* after `says`, as the words of a poetic number, inside an identifier,    *)
(* inside a numeral.  Whether (context, unit) is flat is decided by the    *)
(* MODEL: the recogniser (Lexer.tla + Parser.tla) must accept the text for *)
(* 2 and for 3 repetitions with the same tree (contexts outside literals)  *)
(* or with a tree of the same one-literal shape.  Each flat pair is        *)
(* printed; the harness repeats the unit several hundred thousand times    *)
(* and the real lexer and parser must survive it in both build profiles:   *)
(* no step of the lexer model consumes stack or time per skipped character *)
(* (Lexer!Progress: one match_loop iteration per step).                    *)
(***************************************************************************)
EXTENDS Parser, Json

CONSTANTS Alphabet, MaxUnit, TotalChars
VARIABLES c

NLc == "\n"
TABc == "\t"
FlatAlphabet == {"x", "S", "s", "r", "e", "n", "1", "0", ".", " ", NLc, TABc, "'", "\"", "(", ")", "-", "_", ",", "<", "=", "~", "`", "!", "?", ";", "+", "&", "*", "/",
                 "\\", "\f", "|", "#", "@", "\r", "^"}         \* backslash, control character, U+3000, emoji, one half, CR, capital E-acute

Ctxs == {
  [n |-> "gap",     pre |-> "say 1",           post |-> NLc \o "say 2" \o NLc],
  [n |-> "lead",    pre |-> "",                post |-> "say 1" \o NLc],
  [n |-> "trail",   pre |-> "say 1" \o NLc,    post |-> ""],
  [n |-> "eol",     pre |-> "say 1" \o NLc \o "say 2", post |-> ""],
  [n |-> "comment", pre |-> "say 1 (",         post |-> ")" \o NLc \o "say 2" \o NLc],
  [n |-> "string",  pre |-> "say \"",          post |-> "\"" \o NLc],
  [n |-> "pstr",    pre |-> "foo says ",       post |-> NLc \o "say foo" \o NLc],
  [n |-> "pnum",    pre |-> "foo is a",        post |-> NLc \o "say foo" \o NLc],
  [n |-> "word",    pre |-> "say foo",         post |-> NLc],
  [n |-> "number",  pre |-> "say 1",           post |-> NLc],
  [n |-> "opencomment", pre |-> "say 1 (",     post |-> ""],
  [n |-> "openstring",  pre |-> "say \"",      post |-> ""] }

RECURSIVE Rep(_, _)
Rep(u, k) == IF k = 0 THEN "" ELSE u \o Rep(u, k - 1)
Text(x, u, k) == x.pre \o Rep(u, k) \o x.post

Units == Alphabet \cup (IF MaxUnit >= 2 THEN { a \o b : a, b \in Alphabet } ELSE {})

One(t) == Len(t) = 1 /\ Len(t[1]) = 1           \* one block of one statement
Flat(x, u) ==
  LET v2 == Verdict(Text(x, u, 2)) v3 == Verdict(Text(x, u, 3)) IN
  CASE x.n \in {"opencomment", "openstring"} ->           \* an unterminated literal (the unit does not close it): rejected, and flat
         LET close == IF x.n = "opencomment" THEN ")" ELSE "\"" IN
         /\ \A i \in 1..Len(u) : SubSeq(u, i, i) # close
         /\ ~v2.ok /\ ~v3.ok /\ v2.line = v3.line
    [] ~(v2.ok /\ v3.ok) -> FALSE
    [] x.n \in {"gap", "lead", "trail", "eol", "comment"} -> v2.tree = v3.tree
    [] x.n \in {"string", "number"} -> /\ One(v2.tree) /\ One(v3.tree)
                                       /\ \A v \in {v2, v3} : v.tree[1][1].s = "say" /\ v.tree[1][1].e.e = "lit"
    [] x.n = "word" -> /\ One(v2.tree) /\ One(v3.tree)
                       /\ \A v \in {v2, v3} : v.tree[1][1].s = "say" /\ v.tree[1][1].e.e = "var"
    [] x.n = "pstr" -> \A v \in {v2, v3} : Len(v.tree) = 1 /\ Len(v.tree[1]) = 2 /\ v.tree[1][1].s = "pstr"
    [] x.n = "pnum" -> \A v \in {v2, v3} : Len(v.tree) = 1 /\ Len(v.tree[1]) = 2 /\ v.tree[1][1].s = "pnum" /\ v.tree[1][1].e.e = "plit"

(* how often the unit is repeated: TotalChars characters in all.  A `.` starts the numeral scan, which looks ahead over the whole   *)
(* run of letters, digits and periods before it settles for a Dot token: texts made of such runs take quadratic time (a           *)
(* performance matter, not a question of totality), so they stay short enough to finish.                                         *)
HasDot(u) == \E i \in 1..Len(u) : SubSeq(u, i, i) = "."
Reps(u) == (IF HasDot(u) THEN 20000 ELSE TotalChars) \div Len(u)

Init == c = [k |-> "init"]
Next == c.k = "init" /\ \E x \in Ctxs, u \in Units : c' = [k |-> "case", x |-> x, u |-> u]

(* the recogniser gives every such text a verdict *)
FlatTotal == c.k = "init" \/ (LET v == Verdict(Text(c.x, c.u, 3)) IN v.ok \/ v.line >= 1)
Emit == c.k = "init" \/ ~Flat(c.x, c.u) \/
        PrintT(<<"R", ToJson([fam |-> "flat", ctx |-> c.x.n, pre |-> c.x.pre, unit |-> c.u, reps |-> Reps(c.u), post |-> c.x.post,
                              accepted |-> Verdict(Text(c.x, c.u, 3)).ok])>>)
=============================================================================
