-------------------------------- MODULE Laws --------------------------------
(***************************************************************************)
(* Algebraic laws of the value algebra (C14), and the array / queue /      *)
(* transformation laws behind C06 and C07.  They are stated over abstract  *)
(* operation tables so that the same formulas can be evaluated on the      *)
(* model's own operators (MC_Table) and on tables recorded from the        *)
(* implementation (TableTrace).                                            *)
(*                                                                         *)
(* A table is given by three operators:                                    *)
(*    B(op, a, b)  result of the binary operator  (value | Err | Unk)      *)
(*    T(a)         truthiness  "T" | "F" | "U"                             *)
(*    I(a, k)      build (k > 0) / knock (k < 0) by |k|  (value | Err)     *)
(* A law is vacuous on a pair where the table says Unk.                    *)
(***************************************************************************)
EXTENDS Values

Known(r) == ~IsUnk(r)
IsB(r) == r.t = "bool"

EqSym(B(_, _, _), a, b) ==
  Known(B("eq", a, b)) /\ Known(B("eq", b, a)) => B("eq", a, b) = B("eq", b, a)

NeqIsNegation(B(_, _, _), a, b) ==
  Known(B("eq", a, b)) /\ Known(B("ne", a, b)) =>
     /\ IsB(B("eq", a, b)) /\ IsB(B("ne", a, b))
     /\ B("ne", a, b).b = ~B("eq", a, b).b

(* a < b exactly when b > a, a <= b exactly when b >= a; errors mirror too *)
LtGtMirror(B(_, _, _), a, b) ==
  Known(B("lt", a, b)) /\ Known(B("gt", b, a)) => B("lt", a, b) = B("gt", b, a)
LeGeMirror(B(_, _, _), a, b) ==
  Known(B("le", a, b)) /\ Known(B("ge", b, a)) => B("le", a, b) = B("ge", b, a)
ErrMirror(B(_, _, _), a, b) ==
  \A o \in {"lt", "le", "gt", "ge"} :
     Known(B(o, a, b)) /\ Known(B("lt", b, a)) => (IsErr(B(o, a, b)) <=> IsErr(B("lt", b, a)))

(* when an ordering exists, (a <= b and a >= b) coincides with equality.   *)
(* An ordering exists when one of < , > or (<= and >=) holds.              *)
OrderingExists(B(_, _, _), a, b) ==
  /\ \A o \in {"lt", "le", "gt", "ge"} : IsB(B(o, a, b))
  /\ (B("lt", a, b).b \/ B("gt", a, b).b \/ (B("le", a, b).b /\ B("ge", a, b).b))
AntisymIsEq(B(_, _, _), a, b) ==
  OrderingExists(B, a, b) /\ Known(B("eq", a, b)) =>
     B("eq", a, b) = Bool(B("le", a, b).b /\ B("ge", a, b).b)

(* a strict order and its non-strict companion agree: a < b => a <= b, and *)
(* a < b excludes a > b                                                    *)
OrderConsistent(B(_, _, _), a, b) ==
  OrderingExists(B, a, b) =>
     /\ B("lt", a, b).b => (B("le", a, b).b /\ ~B("gt", a, b).b /\ ~B("ge", a, b).b)
     /\ B("gt", a, b).b => (B("ge", a, b).b /\ ~B("lt", a, b).b /\ ~B("le", a, b).b)

LogicAgreesWithTruthy(B(_, _, _), T(_), a, b) ==
  T(a) # "U" /\ T(b) # "U" =>
     /\ Known(B("and", a, b)) => B("and", a, b) = Bool(T(a) = "T" /\ T(b) = "T")
     /\ Known(B("or", a, b))  => B("or", a, b)  = Bool(T(a) = "T" \/ T(b) = "T")
     /\ Known(B("nor", a, b)) => B("nor", a, b) = Bool(~(T(a) = "T" \/ T(b) = "T"))

NotAgreesWithTruthy(N(_), T(_), a) ==
  T(a) # "U" /\ Known(N(a)) => N(a) = Bool(T(a) = "F")

(* building up k times and knocking down k times restores a number (as a   *)
(* number: -0 and 0 are the same number) or a boolean                      *)
Restored(v, w) ==
  CASE v.t = "bool" -> w = v
    \* judged where double arithmetic is exact: adding 1 to a tiny number (1e-16) rounds, as IEEE prescribes, and the way back
    \* cannot restore what the rounding dropped
    [] v.t = "num" -> w.t = "num" /\ (v.c = "tiny" \/ w.c = "inexact" \/ (v.c = "nan" /\ w.c = "nan") \/ NumEq(v, w) = "T")
    [] OTHER -> TRUE
IncDecInverse(I(_, _), a, k) ==
  a.t \in {"bool", "num"} /\ IsVal(I(a, k)) => Restored(a, I(I(a, k), -k))

-----------------------------------------------------------------------------
(* C06: arrays *)

(* reading what was just written gives it back; other positions are left   *)
(* alone; positions between the old end and the written index read         *)
(* mysterious                                                              *)
ReadAfterWrite(v, k, x) ==
  IsVal(SlotGet(v, k)) =>
     LET w == SlotPut(v, k, x) IN Index(w, k) = x

WriteLeavesOthers(v, k, x, j) ==
  IsVal(SlotGet(v, k)) /\ j # k /\ IsVal(Index(IF v.t = "myst" THEN EmptyArr ELSE v, j)) =>
     LET w0 == IF v.t = "myst" THEN EmptyArr ELSE v
         w == SlotPut(v, k, x)
     IN \/ Index(w, j) = Index(w0, j)
        \/ (j.t = "num" /\ k.t = "num" /\ NumEq(j, k) = "T")        \* 0 and -0 name the same slot

ExtendWithMysterious(v, k, x) ==
  IsVal(SlotGet(v, k)) /\ k.t = "num" /\ v.t = "arr" =>
     LET w == SlotPut(v, k, x) i == IndexOf(k).i IN
     /\ Len(w.a) = IF i + 1 > Len(v.a) THEN i + 1 ELSE Len(v.a)
     /\ \A p \in (Len(v.a) + 1)..i : w.a[p] = Myst

(* rock then roll is first-in first-out; a scalar is coerced to a          *)
(* one-element array, mysterious to the empty array                        *)
RECURSIVE RollAll(_)
RollAll(v) == IF v.a = <<>> THEN <<>> ELSE <<PopVal(v)>> \o RollAll(PopRest(v))
RockThenRollFifo(v, xs) ==
  LET w == Push(v, xs) IN
  /\ w.t = "arr"
  /\ RollAll(w) = (CASE v.t = "arr" -> v.a [] v.t = "myst" -> <<>> [] OTHER -> <<v>>) \o xs
DecayIsLen(v) == v.t = "arr" => Decay(v) = IntV(Len(v.a)) /\ ToOutStr(v) = NumToStr(IntV(Len(v.a)))

-----------------------------------------------------------------------------
(* C07: cut / join / cast / turn *)
SplitJoinRoundTrip(s, d) ==      \* s, d strings, d non-empty
  LET c == Cut(Str(s), Str(d)) IN
  /\ c.t = "arr"
  /\ (s # "" => Join(c, Str(d)) = Str(s))
  /\ (s = "" => c = EmptyArr)
SplitEmptyDelimIsChars(s) ==
  LET c == Cut(Str(s), NoParam) IN
  /\ c = Cut(Str(s), Str(""))
  /\ c.t = "arr" /\ Len(c.a) = Len(s)
  /\ \A i \in 1..Len(s) : c.a[i] = Str(CharAt(s, i))
  /\ Join(c, NoParam) = Str(s)
RoundLaws(x) ==                  \* x a number value
  LET u == Turn(x, "up") d == Turn(x, "down") n == Turn(x, "nearest") IN
  x.c = "fin" =>
     /\ Turn(u, "up") = u /\ Turn(d, "down") = d /\ Turn(n, "nearest") = n     \* idempotent
     /\ NumCmp(d, x) \in {"lt", "eq"} /\ NumCmp(x, u) \in {"lt", "eq"}
     /\ n \in {u, d} \/ NumEq(n, u) = "T" \/ NumEq(n, d) = "T"
     /\ (x.n % Den = 0 => u = x /\ d = x /\ n = x)
CastRadixRoundTrip(k, r) ==      \* printing a natural in base 10 and casting it back
  r = 10 /\ k >= 0 => Cast(Str(NatToStr(k)), IntV(10)) = IntV(k)

=============================================================================
