CONSTANTS
  MaxSteps = 3000
  Family = "MU"
  Tier = "quick"
INIT Init
NEXT Next
INVARIANT Inv
INVARIANT Emit
CHECK_DEADLOCK FALSE
