------------------------------- MODULE MC_Lint -------------------------------
(***************************************************************************)
(* Bounded instances for the visitor framework, the constant folders and   *)
(* the linter (C16 - C19).  Kinds of cases:                                *)
(*   fold   one expression: both folders, and (model level) the machine's  *)
(*          value of the expression whenever the numeric folder reports    *)
(*   lint   one program: the linter's full report                          *)
(*   visit  one program: the runner's callback log and fold term           *)
(***************************************************************************)
EXTENDS Interp, Json, SequencesExt, IOUtils

LI == INSTANCE Lint
VS == INSTANCE Visitor

CONSTANT Kind, Tier
VARIABLE c

N(k) == Lit(IntV(k))
S(t) == Lit(Str(t))
Put(e, n) == SAssign(0, Var(n), "none", <<e>>)
Say(e) == SSay(0, e)

(* line numbering as in MC_Interp *)
RECURSIVE NumSeq(_, _)
RECURSIVE NumStmt(_, _)
NumStmt(s, n) ==
  LET s1 == [s EXCEPT !.line = n] IN
  CASE s.s = "if" -> LET t == NumSeq(s.th, n + 1) e == NumSeq(s.el, t.n) IN [s |-> [s1 EXCEPT !.th = t.ss, !.el = e.ss], n |-> e.n]
    [] s.s \in {"while", "until", "func"} -> LET b == NumSeq(s.body, n + 1) IN [s |-> [s1 EXCEPT !.body = b.ss], n |-> b.n]
    [] OTHER -> [s |-> s1, n |-> n + 1]
NumSeq(ss, n) ==
  IF ss = <<>> THEN [ss |-> <<>>, n |-> n]
  ELSE LET h == NumStmt(Head(ss), n) t == NumSeq(Tail(ss), h.n) IN [ss |-> <<h.s>> \o t.ss, n |-> t.n]
RECURSIVE NumBlocks(_, _)
NumBlocks(bs, n) == IF bs = <<>> THEN <<>> ELSE LET h == NumSeq(Head(bs), n) IN <<h.ss>> \o NumBlocks(Tail(bs), h.n)
Number(bs) == NumBlocks(bs, 1)

-----------------------------------------------------------------------------
(* expressions *)
Consts == { N(0), N(3), N(35), N(10), N(100), Lit(Fin(32)), Lit(Fin(224)), N(-5), Lit(NZero), Lit(PInf), Lit(NaN),
            Lit(Tiny(1, "0.00000000001")), Lit(Dec(1, "0.26")), Lit(Dec(1, "3.14159265358979")), Lit(Big(1, "123456789012345")) }
StrConsts == { S("hi"), S("a b!"), S("l1\nl2"), S(""), S("(x"), S("end\n"), S("\n"), S("a\\b"), S("t\tb"), S("hey\r"), S("\r"), S(" lead and trail  ") }
NonConst == { Var("x"), Pro, Idx(Var("x"), N(0)), Call("f", <<N(1)>>), RollE(Var("x")), Lit(Bool(TRUE)), Lit(Null), Lit(Myst),
              \* a pop or an element of something that is itself a constant is still not a constant (it is a run-time error, or a character)
              RollE(N(5)), Idx(N(5), N(1)), Idx(S("abc"), S("b")), RollE(S("abc")), Idx(S("abc"), N(1)), Idx(Var("x"), Var("y")) }
PLits == { PLit(<<PW("abc"), PW("de")>>), PLit(<<PW("a"), PD, PW("ab"), PS("'s")>>) }
Atoms == Consts \cup StrConsts \cup NonConst
AtomsQ == { N(0), N(3), Lit(Fin(32)), N(-5), S("hi"), Var("x"), Pro, Call("f", <<N(1)>>), RollE(Var("x")), Lit(Bool(TRUE)), Lit(Null), Lit(Myst),
            RollE(N(5)), Idx(N(5), N(1)), Lit(PInf) }
Ops == { "plus", "minus", "times", "over", "lt", "and", "eq" }

E1(A) == { Un(o, a) : o \in {"neg", "not"}, a \in A } \cup { Bin(o, a, <<b>>) : o \in Ops, a \in A, b \in A }
EList(A) == { Bin(o, a, <<b, d>>) : o \in Ops, a \in A, b \in A, d \in A }
E2(A) == { Bin(o, x, <<b>>) : o \in Ops, x \in E1(A), b \in A } \cup { Bin(o, b, <<x>>) : o \in Ops, x \in E1(A), b \in A }
         \cup { Un(o, x) : o \in {"neg", "not"}, x \in E1(A) }
Exprs(z) == Atoms \cup PLits \cup E1(IF Tier = "quick" THEN AtomsQ ELSE Atoms) \cup EList(AtomsQ)
            \cup (IF Tier = "quick" THEN {} ELSE E2({ N(3), Lit(Fin(32)), N(0), Var("x"), S("hi") }))

-----------------------------------------------------------------------------
(* programs for the linter *)
LintRhs(z) == Atoms \cup E1({ N(3), N(0), Lit(Fin(32)), N(-5), S("hi"), Var("x") }) \cup EList({ N(3), Lit(Fin(32)), Var("x") })
Forms(e) == {
  <<Put(e, "x")>>,
  <<SAssign(0, Var("x"), "plus", <<e>>)>>,
  <<SAssign(0, Var("x"), "none", <<e, N(1)>>)>>,
  <<SPNum(0, Var("x"), e)>>,
  <<SRock(0, Var("x"), <<e>>)>>,
  <<SRock(0, Var("x"), <<e, N(2)>>)>>,
  <<SRock(0, Idx(Var("x"), N(1)), <<e>>)>>,
  <<SAssign(0, Idx(Var("x"), N(0)), "none", <<e>>)>>,
  <<SAssign(0, Pro, "none", <<e>>)>>,
  <<SFunc(0, "f", <<"a">>, <<SIf(0, Var("a"), <<Put(e, "deep")>>, TRUE, <<SWhile(0, Var("a"), <<SPNum(0, Var("inner"), e), SBreak(0)>>)>>)>>)>>,
  <<Say(Var("x")), Put(e, "x"), Say(Var("x")), Put(N(7), "x")>>,
  <<Say(Var("x")), SRock(0, Var("x"), <<e>>), Say(Var("x"))>>
}
PoeticForms == { <<SPNum(0, Var("x"), p)>> : p \in PLits } \cup { <<SRock(0, Var("x"), <<p>>)>> : p \in PLits }
              \cup { <<SPStr(0, Var("x"), "some text")>>, <<SPStr(0, Var("x"), "some text"), SPStr(0, Var("x"), "more")>> }

(* mention order: names of variables, functions, parameters, subscripts, list operands *)
MPool == { Say(Var("x")), Say(Var("y")), Put(Bin("plus", Var("x"), <<Var("x")>>), "y"), SCall(0, "f", <<Var("x"), Var("x")>>),
           Say(Call("x", <<Var("x")>>)), SFunc(0, "x", <<"x", "y">>, <<Say(Var("y"))>>), SInc(0, Var("x"), 1),
           SListen(0, Idx(Var("x"), Var("y"))), SMut(0, "cut", Var("x"), Var("x"), Var("x")), SRock(0, Var("x"), <<Var("x"), Var("y")>>),
           SRoll(0, Var("x"), Var("x")), SWhile(0, Var("x"), <<Say(Var("x"))>>), SIf(0, Var("x"), <<Say(Var("y"))>>, TRUE, <<Say(Var("x"))>>),
           Say(Bin("plus", Var("y"), <<Var("y"), Var("y"), Var("x")>>)), Put(N(5), "x"), Say(Pro), STurn(0, "up", Var("x")),
           SReturn(0, Var("y")), Say(Call("y", <<Call("y", <<Var("y")>>)>>)),
           SMut(0, "cut", Var("x"), Var("y"), ENone), SMut(0, "join", Var("y"), ENone, Var("x")), SMut(0, "cast", Var("x"), Var("y"), Var("z")),
           SAssign(0, Idx(Var("x"), Var("x")), "none", <<N(5)>>), SRoll(0, Var("x"), Var("y")), SRock(0, Var("y"), <<>>) }
MProgs(z) == { <<a, b>> : a, b \in MPool } \cup (IF Tier = "quick" THEN {} ELSE { <<a, b, d>> : a, b, d \in MPool })

(* many diagnostics, every line reported by both passes: the order of the report does not depend on its length *)
LongTies == { [i \in 1..n |-> Put(N(i % 3), "x")] : n \in {20, 40, 70} }
LintProgs(z) == UNION { Forms(e) : e \in LintRhs(z) } \cup PoeticForms \cup MProgs(z) \cup LongTies

(* trees for the visitor: every node type in every child position *)
VisitProgs(z) ==
  UNION { Forms(e) : e \in { N(3), Bin("plus", Var("x"), <<N(1), Pro, S("s")>>), Un("not", Idx(Var("x"), Idx(Var("y"), N(0)))),
                            Call("f", <<Var("a"), Bin("and", Var("b"), <<Var("c")>>)>>), RollE(Idx(Var("q"), N(1))) } }
  \cup PoeticForms \cup MProgs(z)
  \cup { <<SMut(0, o, Var("x"), d, p)>> : o \in {"cut", "join", "cast"}, d \in {ENone, Var("y"), Idx(Var("y"), N(0))}, p \in {ENone, S(","), Bin("plus", Var("p"), <<N(1)>>)} }
  \cup { <<SMut(0, "cut", S("lit"), Var("y"), ENone)>> } \cup { <<STurn(0, d, Bin("over", Var("x"), <<N(2)>>))>> : d \in {"up", "down", "nearest"} }
  \cup { <<SListen(0, ENone), SListen(0, Var("x")), SBreak(0), SContinue(0), SRoll(0, Var("x"), ENone), SRock(0, Var("x"), <<>>)>>,
         <<SIf(0, Var("c"), <<>>, TRUE, <<>>), SIf(0, Var("c"), <<Say(N(1))>>, FALSE, <<>>), SUntil(0, Un("not", Var("c")), <<>>)>>,
         <<SFunc(0, "g", <<"p", "q", "r">>, <<>>), SCall(0, "g", <<N(1), Var("x"), Call("g", <<N(1), N(2), N(3)>>)>>), SReturn(0, Bin("times", Pro, <<N(2)>>))>>,
         <<SDec(0, Pro, 2), SInc(0, Var("x"), 3), SAssign(0, Idx(Idx(Var("x"), N(1)), S("k")), "times", <<N(2), N(3)>>)>> }

-----------------------------------------------------------------------------
NS == 16
Sh(St, n) == LET q == SetToSeq(St) IN { q[i] : i \in { j \in 1..Len(q) : j % NS = n } }

(* the corpus kinds: the trees of the program corpus as the real parser builds them (vh record corpus-trees), from the file named  *)
(* by the environment variable CORPUS; Lint.tla and Visitor.tla say what the linter and a visitor must make of them                *)
CorpusRec == IF Kind \in {"corpuslint", "corpusvisit"} THEN ndJsonDeserialize(IOEnv.CORPUS) ELSE <<>>
CasesOf(n) ==
  CASE Kind = "corpuslint"  -> { [k |-> "lint", prog |-> CorpusRec[i].prog] : i \in { j \in 1..Len(CorpusRec) : j % NS = n } }
    [] Kind = "corpusvisit" -> { [k |-> "visit", prog |-> CorpusRec[i].prog] : i \in { j \in 1..Len(CorpusRec) : j % NS = n } }
    [] Kind = "fold"  -> { [k |-> "fold", e |-> e] : e \in Sh(Exprs(0), n) }
    [] Kind = "lint"  -> { [k |-> "lint", prog |-> Number(<<p>>)] : p \in Sh(LintProgs(0), n) }
    [] Kind = "visit" -> { [k |-> "visit", prog |-> Number(<<p>>)] : p \in Sh(VisitProgs(0), n) }

Init == c \in [k : {"init"}, n : 0..(NS - 1)]
Next == c.k = "init" /\ c' \in CasesOf(c.n)

-----------------------------------------------------------------------------
(* the machine's value of an expression in an environment where x is an array, f a function and the pronoun refers to x *)
ValueOf(e) ==
  LET prog == << <<SRock(0, Var("x"), <<N(7)>>), SFunc(0, "f", <<"a">>, <<SReturn(0, Var("a"))>>), SRock(0, Var("x"), <<>>), Put(e, "r")>> >>
      fin == RunAll(Init0(prog, <<>>, -1, 0))
  IN IF fin.st = "ok" THEN fin.env[1]["r"].v ELSE [t |-> fin.st]

(* C17 on the model: a reported numeric value is the value the machine computes; values are reported exactly for pure arithmetic *)
FoldSound ==
  c.k = "fold" =>
    LET f == LI!FoldNum(c.e) IN
    /\ LI!FoldExact(c.e)
    /\ f.ok => LET v == ValueOf(c.e) IN v = f.v \/ (v.t = "num" /\ f.v.c = "inexact")
    /\ LI!FoldStr(c.e).ok => ValueOf(c.e) = LI!FoldStr(c.e).v
(* C19 on the model *)
ReportShape ==
  c.k = "lint" =>
    LET r == LI!Report(c.prog) IN LI!SortedByLine(r) /\ LI!PassOrderOnTies(r) /\ LI!RepeatedExact(c.prog)
(* C16 on the model *)
WalkShape == c.k = "visit" => VS!EachOnceInOrder(c.prog) /\ VS!PresentationCoversWalk(c.prog)

Emit ==
  CASE c.k = "fold"  -> PrintT(<<"R", ToJson([fam |-> "fold", e |-> c.e, num |-> LI!FoldNum(c.e), str |-> LI!FoldStr(c.e)])>>)
    [] c.k = "lint"  -> PrintT(<<"R", ToJson([fam |-> "lint", prog |-> c.prog, report |-> LI!Report(c.prog)])>>)
    [] c.k = "visit" -> LET w == VS!WProgram(c.prog) IN PrintT(<<"R", ToJson([fam |-> "visit", prog |-> c.prog, log |-> w.log, term |-> w.term, full |-> VS!SProgram(c.prog)])>>)
    [] OTHER -> TRUE
=============================================================================
