CONSTANTS
  SuffixUsesStaleLine = FALSE
  Alphabet <- SoupElse
  MaxLen = 6
INIT Init
NEXT Next
INVARIANT ParserTotal
INVARIANT Emit
CHECK_DEADLOCK FALSE
