CONSTANTS
  MaxSteps = 200000
  CrashOnly = FALSE
SPECIFICATION Spec
INVARIANT Follow
CHECK_DEADLOCK FALSE
