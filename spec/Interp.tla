------------------------------- MODULE Interp -------------------------------
(***************************************************************************)
(* Small-step abstract machine for the rrss interpreter                    *)
(* (src/exec/{exec_stmt,produce_val,write_val,environment,sym_table}.rs).  *)
(*                                                                         *)
(* The machine state is one record m:                                      *)
(*   K     control stack (Head = next frame to run)                        *)
(*   V     value stack (last = top)                                        *)
(*   env   scope stack (last = innermost); a scope maps a name to          *)
(*         [k |-> "var", v |-> value] or [k |-> "func", ps, body]          *)
(*   last  the pronoun referent: <<>> or <<name>>                          *)
(*   act   activation stack (last = current): [cf, ret]; cf is the         *)
(*         control-flow state normal | breaking | continuing | returning   *)
(*   inp   input still to be handed out: what successive read calls of the *)
(*         stream return; buf: read but not yet consumed (buffered reader) *)
(*   rd    read calls issued; failAt: the read call that fails (0 = none)  *)
(*   out   bytes accepted by the writer; budget: bytes it still accepts    *)
(*         (-1 = unlimited)                                                *)
(*   st    run | ok | err | unspec (left the specified region) | blowup | fuel *)
(*   evs   history: the snapshot after every completed statement (all of   *)
(*         them, the latest only, or none: rec); nev: how many there were  *)
(*   acts  history: the machine actions exercised                          *)
(*                                                                         *)
(* Syntax trees are records; see the constructors below.  Names are        *)
(* abstract (strings): how a name is spelled (simple / common / proper,    *)
(* letter case) is the business of Names.tla and the renderer.             *)
(***************************************************************************)
EXTENDS Values

PO == INSTANCE Poetic

CONSTANT MaxSteps

-----------------------------------------------------------------------------
(* syntax constructors *)
ENone == [e |-> "none"]
Lit(v) == [e |-> "lit", v |-> v]
Var(n) == [e |-> "var", n |-> n]
Pro == [e |-> "pro"]
Idx(a, k) == [e |-> "idx", a |-> a, k |-> k]
Call(f, args) == [e |-> "call", f |-> f, args |-> args]
RollE(a) == [e |-> "roll", a |-> a]
Bin(op, l, r) == [e |-> "bin", op |-> op, l |-> l, r |-> r]            \* r: non-empty sequence
Un(op, x) == [e |-> "un", op |-> op, x |-> x]
PLit(elems) == [e |-> "plit", elems |-> elems]                           \* poetic number literal (pnum rhs, rock ... like)
PW(w) == [k |-> "w", s |-> w]
PS(t) == [k |-> "s", s |-> t]
PD == [k |-> "d"]

SAssign(line, dest, op, vals) == [s |-> "assign", line |-> line, dest |-> dest, op |-> op, vals |-> vals]
SPNum(line, dest, e) == [s |-> "pnum", line |-> line, dest |-> dest, e |-> e]
SPStr(line, dest, str) == [s |-> "pstr", line |-> line, dest |-> dest, str |-> str]
SIf(line, c, th, hasElse, el) == [s |-> "if", line |-> line, c |-> c, th |-> th, hasElse |-> hasElse, el |-> el]
SWhile(line, c, body) == [s |-> "while", line |-> line, c |-> c, body |-> body]
SUntil(line, c, body) == [s |-> "until", line |-> line, c |-> c, body |-> body]
SInc(line, dest, n) == [s |-> "inc", line |-> line, dest |-> dest, n |-> n]
SDec(line, dest, n) == [s |-> "dec", line |-> line, dest |-> dest, n |-> n]
SListen(line, dest) == [s |-> "listen", line |-> line, dest |-> dest]
SSay(line, e) == [s |-> "say", line |-> line, e |-> e]
SMut(line, op, operand, dest, param) == [s |-> "mut", line |-> line, op |-> op, operand |-> operand, dest |-> dest, param |-> param]
STurn(line, dir, e) == [s |-> "turn", line |-> line, dir |-> dir, e |-> e]
SBreak(line) == [s |-> "break", line |-> line]
SContinue(line) == [s |-> "continue", line |-> line]
SRock(line, a, vals) == [s |-> "rock", line |-> line, a |-> a, vals |-> vals]       \* vals may be empty
SRoll(line, a, dest) == [s |-> "rollst", line |-> line, a |-> a, dest |-> dest]
SReturn(line, e) == [s |-> "return", line |-> line, e |-> e]
SFunc(line, name, ps, body) == [s |-> "func", line |-> line, name |-> name, ps |-> ps, body |-> body]
SCall(line, f, args) == [s |-> "callst", line |-> line, f |-> f, args |-> args]

-----------------------------------------------------------------------------
(* environment *)
VarE(v) == [k |-> "var", v |-> v]
FuncE(ps, body) == [k |-> "func", ps |-> ps, body |-> body]

(* index of the innermost scope that has the name, 0 if none *)
FindScope(env, n) ==
  LET S == { i \in 1..Len(env) : n \in DOMAIN env[i] } IN
  IF S = {} THEN 0 ELSE CHOOSE i \in S : \A j \in S : j <= i

SetVar(env, i, n, v) == [env EXCEPT ![i] = (n :> VarE(v)) @@ env[i]]

(* lookup for reading: <<"ok", value>> | <<"err">> *)
ReadVar(env, n) ==
  LET i == FindScope(env, n) IN
  IF i = 0 THEN <<"err">> ELSE IF env[i][n].k # "var" THEN <<"err">> ELSE <<"ok", env[i][n].v>>

(* resolution of a write root.  A variable name: the innermost scope that  *)
(* has it as a variable, else create it (mysterious) in the innermost      *)
(* scope; creation fails when the innermost scope already has the name     *)
(* (then necessarily as a function).  A pronoun: the referent must exist   *)
(* as a variable; nothing is created.  Result [ok, i (scope), n, v]        *)
ResolveVar(env, n) ==
  LET i == FindScope(env, n) IN
  IF i # 0 /\ env[i][n].k = "var" THEN [ok |-> TRUE, i |-> i, n |-> n, v |-> env[i][n].v]
  ELSE IF n \in DOMAIN env[Len(env)] THEN [ok |-> FALSE]
  ELSE [ok |-> TRUE, i |-> Len(env), n |-> n, v |-> Myst]
ResolvePro(env, last) ==
  IF last = <<>> THEN [ok |-> FALSE]
  ELSE LET n == last[1] i == FindScope(env, n) IN
       IF i # 0 /\ env[i][n].k = "var" THEN [ok |-> TRUE, i |-> i, n |-> n, v |-> env[i][n].v] ELSE [ok |-> FALSE]

-----------------------------------------------------------------------------
(* the write closures: what a write-visit does to the slot it reaches *)
WSet(v) == [w |-> "set", v |-> v]
WInc(k) == [w |-> "inc", k |-> k]
WPush(xs) == [w |-> "push", xs |-> xs]
WPop == [w |-> "pop"]
WMut(op, p) == [w |-> "mut", op |-> op, p |-> p]
WTurn(dir) == [w |-> "turn", dir |-> dir]

(* result: [r |-> "ok", v (new slot value), o (value handed back: roll)] | [r |-> "err"] | [r |-> "unk"] | [r |-> "blowup"] *)
WOk(v, o) == [r |-> "ok", v |-> v, o |-> o]
OfVal(x, o) == IF IsErr(x) THEN [r |-> "err"] ELSE IF IsUnk(x) THEN [r |-> IF x.why = "resource" THEN "blowup" ELSE "unk"] ELSE WOk(x, o)

ApplyW(w, v) ==
  CASE w.w = "set"  -> WOk(w.v, Myst)
    [] w.w = "inc"  -> OfVal(Inc(v, w.k), Myst)
    [] w.w = "push" -> WOk(Push(v, w.xs), Myst)
    [] w.w = "pop"  -> LET p == PopVal(v) IN IF IsErr(p) THEN [r |-> "err"] ELSE WOk(PopRest(v), p)
    [] w.w = "mut"  -> OfVal(Mutate(w.op, v, w.p), Myst)
    [] w.w = "turn" -> OfVal(Turn(v, w.dir), Myst)

RECURSIVE WritePath(_, _, _)     \* keys: innermost container first
WritePath(v, keys, w) ==
  IF keys = <<>> THEN ApplyW(w, v)
  ELSE LET g == SlotGet(v, Head(keys)) IN
       IF ~IsVal(g) THEN OfVal(g, Myst)
       ELSE LET r == WritePath(g, Tail(keys), w) IN
            IF r.r # "ok" THEN r ELSE WOk(SlotPut(v, Head(keys), r.v), r.o)

-----------------------------------------------------------------------------
(* input / output at the granularity the real streams see *)
VWidth(c) == IF c = "~" THEN 2 ELSE 1
RECURSIVE VBytes(_)
VBytes(s) == IF s = "" THEN 0 ELSE VWidth(CharAt(s, 1)) + VBytes(SubSeq(s, 2, Len(s)))

(* `say`: write(text) (skipped when empty), then write(newline); a writer  *)
(* that can take only part of a chunk takes that part and fails on the     *)
(* rest.  Result [out, budget, ok]                                         *)
RECURSIVE TakeBytes(_, _)        \* longest prefix of s of at most b bytes
TakeBytes(s, b) == IF s = "" \/ VWidth(CharAt(s, 1)) > b THEN ""
                   ELSE CharAt(s, 1) \o TakeBytes(SubSeq(s, 2, Len(s)), b - VWidth(CharAt(s, 1)))
WriteLine(out, budget, text) ==
  LET all == text \o "\n" n == VBytes(all) IN
  IF budget < 0 THEN [out |-> out \o all, budget |-> budget, ok |-> TRUE]
  ELSE IF n <= budget THEN [out |-> out \o all, budget |-> budget - n, ok |-> TRUE]
  ELSE LET t == TakeBytes(all, budget) IN [out |-> out \o t, budget |-> budget - VBytes(t), ok |-> FALSE]

(* `listen`: the reader is buffered (BufReader::read_line).  A line is taken from the buffer if it holds a line end;        *)
(* otherwise the stream is read (one call = one chunk, which may be a piece of a line or several lines) until the buffer   *)
(* holds a line end or the stream ends.  Result [ok, line, inp, rd, buf]                                                   *)
EndsNl(s) == s # "" /\ CharAt(s, Len(s)) = "\n"
FirstNl(s) == LET RECURSIVE F(_) F(i) == IF i > Len(s) THEN 0 ELSE IF CharAt(s, i) = "\n" THEN i ELSE F(i + 1) IN F(1)
RECURSIVE ReadLine(_, _, _, _)
ReadLine(inp, rd, failAt, buf) ==
  LET k == FirstNl(buf) IN
  IF k # 0 THEN [ok |-> TRUE, line |-> SubSeq(buf, 1, k - 1), inp |-> inp, rd |-> rd, buf |-> SubSeq(buf, k + 1, Len(buf))]
  ELSE IF failAt # 0 /\ rd + 1 >= failAt THEN [ok |-> FALSE, line |-> buf, inp |-> inp, rd |-> rd + 1, buf |-> buf]
  ELSE IF inp = <<>> \/ Head(inp) = "" THEN                                                    \* end of input
         [ok |-> TRUE, line |-> buf, inp |-> IF inp = <<>> THEN inp ELSE Tail(inp), rd |-> rd + 1, buf |-> ""]
  ELSE ReadLine(Tail(inp), rd + 1, failAt, buf \o Head(inp))

-----------------------------------------------------------------------------
(* frames *)
F(kind) == [f |-> kind]
FEval(e) == [f |-> "eval", e |-> e]
FStmt(s) == [f |-> "stmt", s |-> s]
FBlock(ss, j, ph) == [f |-> "block", ss |-> ss, j |-> j, ph |-> ph]
FProg(bs, i) == [f |-> "prog", bs |-> bs, i |-> i]
FWr(t, w) == [f |-> "wr", t |-> t, w |-> w]

RECURSIVE Evals(_)              \* one evaluation frame per expression, first expression on top
Evals(es) == IF es = <<>> THEN <<>> ELSE <<FEval(Head(es))>> \o Evals(Tail(es))

IsLhsRoot(t) == t.e \in {"var", "pro"}
(* a subscript chain: its subscript expressions outermost first, and its root *)
RECURSIVE ChainSubs(_)
ChainSubs(t) == IF t.e = "idx" THEN <<t.k>> \o ChainSubs(t.a) ELSE <<>>
RECURSIVE ChainRoot(_)
ChainRoot(t) == IF t.e = "idx" THEN ChainRoot(t.a) ELSE t

Init0(prog, inp, budget, failAt) ==
  [K |-> <<FProg(prog, 1)>>, V |-> <<>>, env |-> <<<<>>>>, last |-> <<>>,
   act |-> <<[cf |-> "normal", ret |-> <<>>]>>, inp |-> inp, buf |-> "", rd |-> 0, failAt |-> failAt,
   out |-> "", budget |-> budget, st |-> "run", evs |-> <<>>, nev |-> 0, rec |-> "all", acts |-> {}, steps |-> 0]
(* the same machine without the history of snapshots (runs whose scope stacks are hundreds deep) *)
InitQuiet(prog, inp, budget, failAt) == [Init0(prog, inp, budget, failAt) EXCEPT !.rec = "none"]
(* the same machine keeping only the latest snapshot (trace validation of long runs: nev counts them) *)
InitLast(prog, inp, budget, failAt) == [Init0(prog, inp, budget, failAt) EXCEPT !.rec = "last"]

Cf(m) == m.act[Len(m.act)].cf
SetCf(m, c) == [m EXCEPT !.act[Len(m.act)].cf = c]
TopV(m) == m.V[Len(m.V)]
PopVs(m, n) == SubSeq(m.V, 1, Len(m.V) - n)
LastN(m, n) == SubSeq(m.V, Len(m.V) - n + 1, Len(m.V))

Stop(m, st) == [m EXCEPT !.st = st, !.K = <<>>]
Fail(m) == Stop(m, "err")
Unspec(m) == Stop(m, "unspec")
Blown(m) == Stop(m, "blowup")              \* the next step needs unbounded time or memory (a string repeated 1e30 times): not executed
UnspecV(m, v) == IF v.why = "resource" THEN Blown(m) ELSE Unspec(m)      \* v an Unk value
OfR(m, r) == IF r = "err" THEN Fail(m) ELSE IF r = "blowup" THEN Blown(m) ELSE Unspec(m)        \* r \in {"err", "unk", "blowup"}

Snapshot(m, s) ==
  [line |-> s.line, cf |-> Cf(m),
   scopes |-> [i \in 1..Len(m.env) |->
                 [n \in DOMAIN m.env[i] |->
                    IF m.env[i][n].k = "var" THEN [var |-> m.env[i][n].v] ELSE [func |-> Len(m.env[i][n].ps)]]],
   last |-> m.last]

(* completing a write: root resolved to r (scope i, name n, value v), keys innermost first *)
FinishWrite(m, rest, r, keys, w, setLast) ==
  LET x == WritePath(r.v, keys, w) IN
  IF x.r # "ok" THEN OfR(m, x.r)
  ELSE [m EXCEPT !.K = rest,
                 !.env = SetVar(m.env, r.i, r.n, x.v),
                 !.last = IF setLast THEN <<r.n>> ELSE m.last,
                 !.V = IF w.w = "pop" THEN Append(m.V, x.o) ELSE m.V]

ResolveRoot(m, root) ==
  IF root.e = "var" THEN ResolveVar(m.env, root.n) ELSE ResolvePro(m.env, m.last)

HasEffects(e) ==       \* contains a call or a roll: evaluation order would be observable
  LET RECURSIVE H(_)
      H(x) == CASE x.e \in {"call", "roll"} -> TRUE
                [] x.e = "idx" -> H(x.a) \/ H(x.k)
                [] x.e = "bin" -> H(x.l) \/ \E i \in 1..Len(x.r) : H(x.r[i])
                [] x.e = "un" -> H(x.x)
                [] OTHER -> FALSE
  IN H(e)

-----------------------------------------------------------------------------
(* one machine step; `name` is the action taken *)
StepStmt(m, rest, s) ==
  CASE s.s = "say" -> [m EXCEPT !.K = <<FEval(s.e), F("sayK")>> \o rest]
    [] s.s = "listen" ->
         LET r == ReadLine(m.inp, m.rd, m.failAt, m.buf) IN
         IF ~r.ok THEN Fail([m EXCEPT !.rd = r.rd, !.inp = r.inp])
         ELSE LET m1 == [m EXCEPT !.rd = r.rd, !.inp = r.inp, !.buf = r.buf] IN
              IF s.dest.e = "none" THEN [m1 EXCEPT !.K = rest]
              ELSE [m1 EXCEPT !.K = <<FWr(s.dest, WSet(Str(r.line)))>> \o rest]
    [] s.s = "assign" ->
         IF s.op # "none" THEN [m EXCEPT !.K = <<FEval(s.dest), [f |-> "binK", op |-> s.op, rest |-> s.vals], [f |-> "assignW", dest |-> s.dest]>> \o rest]
         ELSE IF Len(s.vals) > 1 THEN Fail(m)
         ELSE [m EXCEPT !.K = <<FEval(s.vals[1]), [f |-> "assignW", dest |-> s.dest]>> \o rest]
    [] s.s = "pnum" -> [m EXCEPT !.K = <<FEval(s.e), [f |-> "assignW", dest |-> s.dest]>> \o rest]
    [] s.s = "pstr" -> [m EXCEPT !.K = <<FWr(s.dest, WSet(Str(s.str)))>> \o rest]
    [] s.s = "if" -> [m EXCEPT !.K = <<FEval(s.c), [f |-> "ifK", s |-> s]>> \o rest]
    [] s.s \in {"while", "until"} -> [m EXCEPT !.K = <<FEval(s.c), [f |-> "loopK", s |-> s]>> \o rest]
    [] s.s = "inc" -> [m EXCEPT !.K = <<FWr(s.dest, WInc(s.n))>> \o rest]
    [] s.s = "dec" -> [m EXCEPT !.K = <<FWr(s.dest, WInc(-s.n))>> \o rest]
    [] s.s = "mut" ->
         IF s.param.e = "none" THEN [m EXCEPT !.K = <<[f |-> "mutK", s |-> s, hasP |-> FALSE]>> \o rest]
         ELSE [m EXCEPT !.K = <<FEval(s.param), [f |-> "mutK", s |-> s, hasP |-> TRUE]>> \o rest]
    [] s.s = "turn" -> [m EXCEPT !.K = <<FWr(s.e, WTurn(s.dir))>> \o rest]
    [] s.s = "break" -> [SetCf(m, "breaking") EXCEPT !.K = rest]
    [] s.s = "continue" -> [SetCf(m, "continuing") EXCEPT !.K = rest]
    [] s.s = "rock" ->
         [m EXCEPT !.K = Evals(s.vals) \o <<[f |-> "rockK", a |-> s.a, n |-> Len(s.vals)]>> \o rest]
    [] s.s = "rollst" -> [m EXCEPT !.K = <<FEval(RollE(s.a)), [f |-> "rollK", dest |-> s.dest]>> \o rest]
    [] s.s = "return" -> [m EXCEPT !.K = <<FEval(s.e), F("retK")>> \o rest]
    [] s.s = "func" ->
         IF s.name \in DOMAIN m.env[Len(m.env)] THEN Fail(m)
         ELSE [m EXCEPT !.K = rest, !.env[Len(m.env)] = (s.name :> FuncE(s.ps, s.body)) @@ m.env[Len(m.env)]]
    [] s.s = "callst" -> [m EXCEPT !.K = <<FEval(Call(s.f, s.args)), F("drop")>> \o rest]

StepEval(m, rest, e) ==
  CASE e.e = "lit" -> [m EXCEPT !.K = rest, !.V = Append(m.V, e.v)]
    [] e.e = "plit" -> [m EXCEPT !.K = rest, !.V = Append(m.V, PoeticNum(PO!Digits(e.elems)))]
    [] e.e = "var" ->
         LET r == ReadVar(m.env, e.n) m1 == [m EXCEPT !.last = <<e.n>>] IN        \* the referent is set first, also on failure
         IF r[1] = "err" THEN Fail(m1) ELSE [m1 EXCEPT !.K = rest, !.V = Append(m.V, r[2])]
    [] e.e = "pro" ->
         IF m.last = <<>> THEN Fail(m)
         ELSE LET r == ReadVar(m.env, m.last[1]) IN
              IF r[1] = "err" THEN Fail(m) ELSE [m EXCEPT !.K = rest, !.V = Append(m.V, r[2])]
    [] e.e = "idx" -> [m EXCEPT !.K = <<FEval(e.a), FEval(e.k), F("idxK")>> \o rest]
    [] e.e = "un" -> [m EXCEPT !.K = <<FEval(e.x), [f |-> "unK", op |-> e.op]>> \o rest]
    [] e.e = "bin" -> [m EXCEPT !.K = <<FEval(e.l), [f |-> "binK", op |-> e.op, rest |-> e.r]>> \o rest]
    [] e.e = "roll" -> [m EXCEPT !.K = <<FWr(e.a, WPop)>> \o rest]
    [] e.e = "call" ->
         LET i == FindScope(m.env, e.f) IN
         IF i = 0 THEN Fail(m)
         ELSE IF m.env[i][e.f].k # "func" THEN Fail(m)
         ELSE LET fn == m.env[i][e.f] IN
              IF Len(fn.ps) # Len(e.args) THEN Fail(m)
              ELSE [m EXCEPT !.K = Evals(e.args) \o <<[f |-> "callGo", fn |-> fn]>> \o rest]

StepWr(m, rest, t, w) ==
  CASE t.e \in {"var", "pro"} ->
         LET r == ResolveRoot(m, t)
             m1 == IF t.e = "var" THEN [m EXCEPT !.last = <<t.n>>] ELSE m IN
         IF ~r.ok THEN Fail(m1) ELSE FinishWrite(m1, rest, r, <<>>, w, t.e = "var")
    [] t.e = "idx" ->
         LET subs == ChainSubs(t) IN
         [m EXCEPT !.K = Evals(subs) \o <<[f |-> "wrGo", root |-> ChainRoot(t), n |-> Len(subs), w |-> w]>> \o rest]
    [] t.e = "lit" -> Fail(m)                      \* value not writable
    [] OTHER -> Unspec(m)                          \* write-visit of a call, roll, unary or binary expression

Step(m) ==
  LET fr == Head(m.K) rest == Tail(m.K) k == fr.f IN
  CASE k = "prog" ->
         IF fr.i > Len(fr.bs) \/ (fr.i > 1 /\ Cf(m) # "normal") THEN [m EXCEPT !.K = rest]
         ELSE [m EXCEPT !.K = <<FBlock(fr.bs[fr.i], 1, "next"), FProg(fr.bs, fr.i + 1)>> \o rest]
    [] k = "block" ->
         IF fr.ph = "next" THEN
           IF fr.j > Len(fr.ss) THEN [m EXCEPT !.K = rest]
           ELSE [m EXCEPT !.K = <<FStmt(fr.ss[fr.j]), FBlock(fr.ss, fr.j, "after")>> \o rest]
         ELSE LET m1 == CASE m.rec = "all" -> [m EXCEPT !.evs = Append(m.evs, Snapshot(m, fr.ss[fr.j])), !.nev = m.nev + 1]
                          [] m.rec = "last" -> [m EXCEPT !.evs = <<Snapshot(m, fr.ss[fr.j])>>, !.nev = m.nev + 1]
                          [] OTHER -> m IN
              IF Cf(m) # "normal" THEN [m1 EXCEPT !.K = rest]
              ELSE [m1 EXCEPT !.K = <<FBlock(fr.ss, fr.j + 1, "next")>> \o rest]
    [] k = "stmt" -> StepStmt(m, rest, fr.s)
    [] k = "eval" -> StepEval(m, rest, fr.e)
    [] k = "wr" -> StepWr(m, rest, fr.t, fr.w)
    [] k = "wrGo" ->
         LET vals == LastN(m, fr.n)                                  \* outermost subscript first
             keys == [i \in 1..fr.n |-> vals[fr.n + 1 - i]]          \* innermost container first
             m1 == [m EXCEPT !.V = PopVs(m, fr.n)]
         IN IF ~IsLhsRoot(fr.root) THEN (IF fr.root.e = "lit" THEN Fail(m1) ELSE Unspec(m1))
            ELSE LET r == ResolveRoot(m1, fr.root)
                     m2 == IF fr.root.e = "var" THEN [m1 EXCEPT !.last = <<fr.root.n>>] ELSE m1 IN
                 IF ~r.ok THEN Fail(m2) ELSE FinishWrite(m2, rest, r, keys, fr.w, fr.root.e = "var")
    [] k = "sayK" ->
         LET v == TopV(m) m1 == [m EXCEPT !.V = PopVs(m, 1)] IN
         IF ~OutDetermined(v) THEN Unspec(m1)
         ELSE LET r == WriteLine(m.out, m.budget, ToOutStr(v)) IN
              IF r.ok THEN [m1 EXCEPT !.K = rest, !.out = r.out, !.budget = r.budget]
              ELSE Fail([m1 EXCEPT !.out = r.out, !.budget = r.budget])
    [] k = "assignW" -> [m EXCEPT !.K = <<FWr(fr.dest, WSet(TopV(m)))>> \o rest, !.V = PopVs(m, 1)]
    [] k = "ifK" ->
         LET t == Truthy(TopV(m)) m1 == [m EXCEPT !.V = PopVs(m, 1)] s == fr.s IN
         IF t = "U" THEN Unspec(m1)
         ELSE LET blk == IF t = "T" THEN s.th ELSE IF s.hasElse THEN s.el ELSE <<>> IN
              [m1 EXCEPT !.env = Append(m.env, <<>>), !.K = <<FBlock(blk, 1, "next"), F("popscope")>> \o rest]
    [] k = "popscope" -> [m EXCEPT !.K = rest, !.env = SubSeq(m.env, 1, Len(m.env) - 1), !.last = <<>>]
    [] k = "loopK" ->
         LET t == Truthy(TopV(m)) m1 == [m EXCEPT !.V = PopVs(m, 1)] s == fr.s IN
         IF t = "U" THEN Unspec(m1)
         ELSE IF (t = "T") = (s.s = "while")
              THEN [m1 EXCEPT !.env = Append(m.env, <<>>), !.K = <<FBlock(s.body, 1, "next"), [f |-> "loopAfter", s |-> s]>> \o rest]
              ELSE [m1 EXCEPT !.K = rest]
    [] k = "loopAfter" ->
         LET m1 == [m EXCEPT !.env = SubSeq(m.env, 1, Len(m.env) - 1), !.last = <<>>]
             again == <<FEval(fr.s.c), [f |-> "loopK", s |-> fr.s]>> \o rest IN
         (CASE Cf(m) = "normal" -> [m1 EXCEPT !.K = again]
            [] Cf(m) = "continuing" -> [SetCf(m1, "normal") EXCEPT !.K = again]
            [] Cf(m) = "breaking" -> [SetCf(m1, "normal") EXCEPT !.K = rest]
            [] Cf(m) = "returning" -> [m1 EXCEPT !.K = rest])
    [] k = "mutK" ->
         LET s == fr.s
             p == IF fr.hasP THEN TopV(m) ELSE NoParam
             m1 == IF fr.hasP THEN [m EXCEPT !.V = PopVs(m, 1)] ELSE m IN
         IF s.dest.e = "none" THEN [m1 EXCEPT !.K = <<FWr(s.operand, WMut(s.op, p))>> \o rest]
         ELSE [m1 EXCEPT !.K = <<FEval(s.operand), [f |-> "mutInto", s |-> s, p |-> p]>> \o rest]
    [] k = "mutInto" ->
         LET r == Mutate(fr.s.op, TopV(m), fr.p) m1 == [m EXCEPT !.V = PopVs(m, 1)] IN
         IF IsErr(r) THEN Fail(m1) ELSE IF IsUnk(r) THEN UnspecV(m1, r)
         ELSE [m1 EXCEPT !.K = <<FWr(fr.s.dest, WSet(r))>> \o rest]
    [] k = "rockK" -> [m EXCEPT !.K = <<FWr(fr.a, WPush(LastN(m, fr.n)))>> \o rest, !.V = PopVs(m, fr.n)]
    [] k = "rollK" ->
         IF fr.dest.e = "none" THEN [m EXCEPT !.K = rest, !.V = PopVs(m, 1)]
         ELSE [m EXCEPT !.K = <<FWr(fr.dest, WSet(TopV(m)))>> \o rest, !.V = PopVs(m, 1)]
    [] k = "retK" -> [SetCf([m EXCEPT !.act[Len(m.act)].ret = <<TopV(m)>>], "returning") EXCEPT !.K = rest, !.V = PopVs(m, 1)]
    [] k = "drop" -> [m EXCEPT !.K = rest, !.V = PopVs(m, 1)]
    [] k = "idxK" ->
         LET vs == LastN(m, 2) r == Index(vs[1], vs[2]) m1 == [m EXCEPT !.V = PopVs(m, 2)] IN
         IF IsErr(r) THEN Fail(m1) ELSE IF IsUnk(r) THEN UnspecV(m1, r) ELSE [m1 EXCEPT !.K = rest, !.V = Append(m1.V, r)]
    [] k = "unK" ->
         LET r == IF fr.op = "neg" THEN Negate(TopV(m)) ELSE Not(TopV(m)) m1 == [m EXCEPT !.V = PopVs(m, 1)] IN
         IF IsErr(r) THEN Fail(m1) ELSE IF IsUnk(r) THEN UnspecV(m1, r) ELSE [m1 EXCEPT !.K = rest, !.V = Append(m1.V, r)]
    [] k = "binK" ->
         IF fr.rest = <<>> THEN [m EXCEPT !.K = rest]
         ELSE IF fr.op \in LogicOps THEN
                LET ta == Truthy(TopV(m)) IN
                IF ta = "U" THEN Unspec(m)
                ELSE IF ~NeedRhs(fr.op, ta)                        \* this element is not evaluated at all
                     THEN [m EXCEPT !.V = Append(PopVs(m, 1), LogicShort(fr.op, ta)),
                                    !.K = <<[f |-> "binK", op |-> fr.op, rest |-> Tail(fr.rest)]>> \o rest]
                     ELSE [m EXCEPT !.K = <<FEval(Head(fr.rest)), [f |-> "binApply", op |-> fr.op, rest |-> Tail(fr.rest)]>> \o rest]
         ELSE [m EXCEPT !.K = <<FEval(Head(fr.rest)), [f |-> "binApply", op |-> fr.op, rest |-> Tail(fr.rest)]>> \o rest]
    [] k = "binApply" ->
         LET vs == LastN(m, 2) r == BinOp(fr.op, vs[1], vs[2]) m1 == [m EXCEPT !.V = PopVs(m, 2)] IN
         IF IsErr(r) THEN Fail(m1) ELSE IF IsUnk(r) THEN UnspecV(m1, r)
         ELSE [m1 EXCEPT !.V = Append(m1.V, r), !.K = <<[f |-> "binK", op |-> fr.op, rest |-> fr.rest]>> \o rest]
    [] k = "callGo" ->
         LET fn == fr.fn n == Len(fn.ps) args == LastN(m, n) m1 == [m EXCEPT !.V = PopVs(m, n)] IN
         IF \E i, j \in 1..n : i # j /\ fn.ps[i] = fn.ps[j] THEN Fail(m1)                   \* duplicate parameter name
         ELSE [m1 EXCEPT !.env = Append(m.env, [x \in {fn.ps[i] : i \in 1..n} |-> VarE(args[CHOOSE i \in 1..n : fn.ps[i] = x])]),
                         !.act = Append(m.act, [cf |-> "normal", ret |-> <<>>]),
                         !.K = <<FBlock(fn.body, 1, "next"), F("callRet")>> \o rest]
    [] k = "callRet" ->
         LET a == m.act[Len(m.act)] IN
         [m EXCEPT !.env = SubSeq(m.env, 1, Len(m.env) - 1), !.last = <<>>,
                   !.act = SubSeq(m.act, 1, Len(m.act) - 1),
                   !.V = Append(m.V, IF a.ret = <<>> THEN Myst ELSE a.ret[1]), !.K = rest]

ActionName(m) ==
  LET fr == Head(m.K) IN
  CASE fr.f = "stmt" -> "stmt:" \o fr.s.s
    [] fr.f = "eval" -> "eval:" \o fr.e.e
    [] fr.f = "wr" -> "wr:" \o fr.t.e \o ":" \o fr.w.w
    [] fr.f = "block" -> "block:" \o fr.ph
    [] OTHER -> fr.f

(* the transition: run one frame, or finish *)
Next1(m) ==
  IF m.K = <<>> THEN [m EXCEPT !.st = "ok"]
  ELSE IF m.steps >= MaxSteps THEN Stop(m, "fuel")
  ELSE LET n == Step(m) IN [n EXCEPT !.steps = m.steps + 1, !.acts = m.acts \cup {ActionName(m)}]

RECURSIVE RunAll(_)       \* the whole run as one function (used where a run is a sub-computation)
RunAll(m) == IF m.st # "run" THEN m ELSE RunAll(Next1(m))

-----------------------------------------------------------------------------
(* state invariants of the machine *)
Count(K, kinds) == Cardinality({ i \in 1..Len(K) : K[i].f \in kinds })

ScopeBalance(m) == m.st = "run" => Len(m.env) = 1 + Count(m.K, {"popscope", "loopAfter", "callRet"})
ActivationBalance(m) == m.st = "run" => Len(m.act) = 1 + Count(m.K, {"callRet"})
(* no statement is dispatched while an exit is pending (the interpreter's debug assertions) *)
CfDiscipline(m) == m.st = "run" /\ m.K # <<>> /\ Head(m.K).f = "stmt" => Cf(m) = "normal"
(* a return value is recorded exactly while the activation is returning *)
ReturnDiscipline(m) == m.st = "run" => \A i \in 1..Len(m.act) : (m.act[i].ret # <<>>) <=> (m.act[i].cf = "returning")
(* the value stack holds exactly what the pending frames will consume: it is empty between statements *)
StackDiscipline(m) == m.st = "run" /\ m.K # <<>> /\ Head(m.K).f \in {"block", "prog"} /\ Len(m.act) = 1 => m.V = <<>>
(* output is whole lines, plus at most one partial line after a write fault *)
OutShape(m) == m.st \in {"run", "ok"} => (m.out = "" \/ EndsNl(m.out))

MachineInv(m) == /\ ScopeBalance(m) /\ ActivationBalance(m) /\ CfDiscipline(m) /\ ReturnDiscipline(m)
                 /\ StackDiscipline(m) /\ OutShape(m)

(* action properties: one step from m to n *)
OutAppendOnly(m, n) == Len(n.out) >= Len(m.out) /\ SubSeq(n.out, 1, Len(m.out)) = m.out
InConsumeOnly(m, n) == \E j \in 0..Len(m.inp) : n.inp = SubSeq(m.inp, j + 1, Len(m.inp))
(* after a scope or call has ended the pronoun refers to nothing *)
PronounClearedOnExit(m, n) == m.st = "run" /\ m.K # <<>> /\ Head(m.K).f \in {"popscope", "loopAfter", "callRet"} /\ n.st = "run" => n.last = <<>>
(* once the run has ended nothing changes *)
Stopped(m, n) == m.st # "run" => n = m
(* C08: output is written by `say` alone, one whole line per say (unless the writer fails, which ends the run); input is taken by   *)
(* `listen` alone, and a successful listen takes exactly one line: what was unread before = that line, its line end (unless the     *)
(* input ended) and what is unread after                                                                                            *)
IsSayStep(m) == m.K # <<>> /\ Head(m.K).f = "sayK"
IsListenStep(m) == m.K # <<>> /\ Head(m.K).f = "stmt" /\ Head(m.K).s.s = "listen"
RECURSIVE Unread(_)
Unread(q) == IF q = <<>> THEN "" ELSE Head(q) \o Unread(Tail(q))
OnlySayWrites(m, n) == m.st = "run" /\ ~IsSayStep(m) => n.out = m.out
OneLinePerSay(m, n) == m.st = "run" /\ IsSayStep(m) /\ n.st = "run" => Len(n.out) > Len(m.out) /\ EndsNl(n.out)
OnlyListenReads(m, n) == m.st = "run" /\ ~IsListenStep(m) => n.inp = m.inp /\ n.buf = m.buf /\ n.rd = m.rd
OneLinePerListen(m, n) ==
  m.st = "run" /\ IsListenStep(m) /\ n.st = "run" =>
    LET before == m.buf \o Unread(m.inp) after == n.buf \o Unread(n.inp)
        k == FirstNl(before) IN
    IF k = 0 THEN after = "" ELSE after = SubSeq(before, k + 1, Len(before))
(* a fault ends the run at that step: no byte written, no read issued afterwards *)
StepProps(m, n) == /\ OutAppendOnly(m, n) /\ InConsumeOnly(m, n) /\ PronounClearedOnExit(m, n)
                   /\ OnlySayWrites(m, n) /\ OneLinePerSay(m, n) /\ OnlyListenReads(m, n) /\ OneLinePerListen(m, n)

=============================================================================
