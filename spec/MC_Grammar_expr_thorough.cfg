CONSTANTS
  MaxSteps = 100
  Family = "expr"
  Tier = "thorough"
INIT Init
NEXT Next
INVARIANT RoundTrip
INVARIANT Emit
CHECK_DEADLOCK FALSE
