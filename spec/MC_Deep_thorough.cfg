CONSTANTS
  MaxSteps = 200000
  Family = "deep"
  Tier = "thorough"
  Depths = {10, 100, 200, 300, 400}
  Lengths = {1, 100, 1000}
  CallDepths = {60, 150}
INIT DInit
NEXT DNext
INVARIANT DEmit
CHECK_DEADLOCK FALSE
