CONSTANTS
  MaxSteps = 3000
  Family = "CF"
  Tier = "quick"
INIT Init
NEXT Next
INVARIANT Inv
INVARIANT Emit
PROPERTY StepOK
CHECK_DEADLOCK FALSE
