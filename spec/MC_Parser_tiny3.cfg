CONSTANTS
  SuffixUsesStaleLine = FALSE
  Alphabet <- SoupTiny
  MaxLen = 3
INIT Init
NEXT Next
INVARIANT ParserTotal
INVARIANT Emit
CHECK_DEADLOCK FALSE
