CONSTANTS
  MaxSteps = 100
  Family = "expr"
  Tier = "quick"
INIT Init
NEXT Next
INVARIANT RoundTrip
INVARIANT Emit
CHECK_DEADLOCK FALSE
