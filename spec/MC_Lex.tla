------------------------------- MODULE MC_Lex -------------------------------
(***************************************************************************)
(* Bounded instance of the lexer model: every text over Alphabet of length *)
(* <= MaxLen (optionally after a fixed Prefix) is generated character by   *)
(* character and then lexed one match_loop iteration per step.  The C12    *)
(* invariants are evaluated in every state from the text alone, and each   *)
(* completed behaviour is printed for replay into the real lexer / parser. *)
(***************************************************************************)
EXTENDS Lexer, Json

CONSTANTS Alphabet,      \* set of one-character model symbols
          MaxLen,        \* generated characters
          Prefix         \* fixed text before the generated part

(* alphabets (defined here because a configuration file cannot write a newline character) *)
NL == "\n"
TAB == "\t"
CR == "\r"
AlphaSmoke  == {"x", "s", "'", "\"", NL, " ", "1", "."}
AlphaCore   == {"x", "S", "s", "r", "e", "n", "1", ".", " ", NL, "'", "\"", "(", ")", "-", "_", ",", "<", "=", "~", "`"}
AlphaMulti  == {"x", "s", "r", "e", "'", "\"", "(", ")", NL, " ", "~", "1", "\\"}            \* multi-line literals + suffixes
AlphaUni    == {"s", "'", "%", "$", "^", "~", "@", "#", "|", "`", "\f", "i", "t", " ", NL}    \* non-ASCII classes
AlphaNum    == {"1", "0", ".", "e", "E", "x", "'", "s", "@", "-", "+", " ", "_", "r"}    \* numerals
AlphaWs     == {"x", " ", TAB, CR, NL, "|", "!", ";", "'", "n", "&", "s"}                \* blanks, line ends, 'n'
AlphaKw     == {"a", "i", "s", "t", "n", "o", "'", "A", "I", "%", " ", NL, "r", "e"}     \* short keywords in any case

AlphaApos   == {"x", "s", "r", "e", "'", " "}                                            \* contractions followed by stray apostrophes

AlphaAll    == AlphaCore \cup AlphaMulti \cup AlphaUni \cup AlphaNum \cup AlphaWs \cup AlphaKw \cup {"&", "*", "/", ">", "!", "?", ":", "[", "{"}

(* token soup: one fragment per token class the parser dispatches on (each ends in a blank unless it is a suffix) *)
SoupFull == {"put ", "let ", "say ", "shout ", "listen ", "if ", "else ", "while ", "until ", "build ", "knock ", "up ", "down ",
             "cut ", "join ", "cast ", "turn ", "round ", "rock ", "roll ", "like ", "break ", "continue ", "take ", "top ",
             "give ", "return ", "back ", "takes ", "taking ", "into ", "be ", "with ", "to ", "at ", "is ", "isnt ", "says ",
             "not ", "and ", "or ", "nor ", "as ", "than ", "bigger ", "big ", "plus ", "minus ", "times ", "over ",
             NL, ", ", ". ", "& ", "'n' ", "'s ", "'re ", "- ", "< ", ">= ",
             "foo ", "Bar ", "the ", "it ", "5 ", "\"s\" ", "true ", "mysterious ", "empty ", "ab1 ", "\"open ", "(c) ", "_ "}
SoupCore == {"put ", "let ", "say ", "listen ", "if ", "else ", "while ", "build ", "up ", "cut ", "turn ", "rock ", "roll ",
             "like ", "break ", "take ", "give ", "back ", "takes ", "taking ", "into ", "be ", "with ", "to ", "at ", "is ",
             "says ", "not ", "and ", "as ", "than ", "bigger ", "big ", "plus ", "- ", NL, ", ", ". ", "'s ",
             "foo ", "Bar ", "the ", "it ", "5 ", "\"s\" ", "true ", "ab1 "}
SoupTiny == {"put ", "let ", "if ", "else ", "while ", "rock ", "roll ", "taking ", "takes ", "into ", "be ", "with ", "at ", "is ",
             "says ", "- ", NL, ", ", "'s ", "foo ", "Bar ", "the ", "it ", "5 ", "and ", "like ", "give ", "back "}

(* word length against byte length: fragments that join into words around 8 / 16 / 17 characters whose letters take 1, 2 or 3 bytes *)
SoupLong == {"~~~~", "%%%", "aaaaaaaa", "~", "a", "'s", " ", NL, "is", "5"}

PrefixNone  == ""
PrefixQNL   == "\"" \o NL                      \* an open string literal that already spans a line break
PrefixCNL   == "x (" \o NL \o NL               \* an open comment spanning two line breaks after a word
PrefixSay   == "say "

VARIABLES src, phase, i, line, ls, staged, toks, steps, ngen
vars == <<src, phase, i, line, ls, staged, toks, steps, ngen>>

Init == /\ src = Prefix /\ phase = "gen" /\ i = 1 /\ line = 1 /\ ls = 0
        /\ staged = <<>> /\ toks = <<>> /\ steps = 0 /\ ngen = 0

Gen == /\ phase = "gen" /\ ngen < MaxLen
       /\ \E c \in Alphabet : src' = src \o c             \* a symbol, or a whole fragment in the soup alphabets
       /\ ngen' = ngen + 1
       /\ UNCHANGED <<phase, i, line, ls, staged, toks, steps>>

Start == /\ phase = "gen" /\ phase' = "lex"
         /\ UNCHANGED <<src, i, line, ls, staged, toks, steps, ngen>>

EmitStaged == /\ phase = "lex" /\ staged # <<>>
              /\ toks' = toks \o staged /\ staged' = <<>> /\ steps' = steps + 1
              /\ UNCHANGED <<src, phase, i, line, ls, ngen>>

Arm(name) ==
  /\ phase = "lex" /\ staged = <<>>
  /\ LET r == Scan(src, i, line, ls) IN
     /\ r.arm = name
     /\ toks' = IF r.tok.id = "none" THEN toks ELSE Append(toks, r.tok)
     /\ staged' = r.staged
     /\ i' = r.ni /\ line' = r.line /\ ls' = r.ls
     /\ phase' = IF name = "Finish" THEN "done" ELSE "lex"
     /\ steps' = steps + 1
     /\ UNCHANGED <<src, ngen>>

Finish           == Arm("Finish")
LexNewline       == Arm("LexNewline")
LexDotNumber     == Arm("LexDotNumber")
LexDot           == Arm("LexDot")
LexSingleChar    == Arm("LexSingleChar")
LexString        == Arm("LexString")
LexComment       == Arm("LexComment")
LexUnderscore    == Arm("LexUnderscore")
LexRelational    == Arm("LexRelational")
LexAposNApos     == Arm("LexAposNApos")
SkipIgnorable    == Arm("SkipIgnorable")
LexNumber        == Arm("LexNumber")
LexBadNumber     == Arm("LexBadNumber")
LexKeyword       == Arm("LexKeyword")
LexWord          == Arm("LexWord")
LexBadIdentifier == Arm("LexBadIdentifier")
LexInvalid       == Arm("LexInvalid")

Next == \/ Gen \/ Start \/ EmitStaged \/ Finish \/ LexNewline \/ LexDotNumber \/ LexDot \/ LexSingleChar \/ LexString
        \/ LexComment \/ LexUnderscore \/ LexRelational \/ LexAposNApos \/ SkipIgnorable \/ LexNumber \/ LexBadNumber
        \/ LexKeyword \/ LexWord \/ LexBadIdentifier \/ LexInvalid

Spec == Init /\ [][Next]_vars

(* the same transition relation with the seventeen arms folded into one    *)
(* action, so that Scan is evaluated once per state (large enumerations)   *)
Step == /\ phase = "lex" /\ staged = <<>>
        /\ LET r == Scan(src, i, line, ls) IN
           /\ toks' = IF r.tok.id = "none" THEN toks ELSE Append(toks, r.tok)
           /\ staged' = r.staged
           /\ i' = r.ni /\ line' = r.line /\ ls' = r.ls
           /\ phase' = IF r.arm = "Finish" THEN "done" ELSE "lex"
           /\ steps' = steps + 1
           /\ UNCHANGED <<src, ngen>>
NextFast == Gen \/ Start \/ EmitStaged \/ Step
SpecFast == Init /\ [][NextFast]_vars

-----------------------------------------------------------------------------
(* C12 (and the lexer half of C01) as invariants of every state *)
WellFormed == phase # "gen" => TokensWellFormed(src, toks \o staged)

(* every step but EmitStaged advances the cursor; the lexer needs at most  *)
(* two steps per character plus one                                        *)
Terminates == steps <= 2 * Len(src) + 1
Progress == [][phase = "lex" /\ staged = <<>> /\ phase' # "done" => i' > i]_vars

CursorInRange == i >= 1 /\ i <= Len(src) + 1 /\ ls <= Off(src, i)

(* when lexing is complete nothing but ignorable characters is left over   *)
Complete == phase = "done" =>
              /\ i = Len(src) + 1
              /\ GapIgnorable(src, IF toks = <<>> THEN 0 ELSE toks[Len(toks)].e, Off(src, Len(src) + 1))
              /\ toks = LexAll(src)                 \* the functional form used by the parser model agrees

Emit == phase = "done" => PrintT(<<"R", ToJson([fam |-> "lex", src |-> src, toks |-> toks])>>)

=============================================================================
