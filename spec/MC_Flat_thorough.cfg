CONSTANTS
  SuffixUsesStaleLine = FALSE
  Alphabet <- FlatAlphabet
  MaxUnit = 2
  TotalChars = 100000
INIT Init
NEXT Next
INVARIANT FlatTotal
INVARIANT Emit
CHECK_DEADLOCK FALSE
