CONSTANTS
  MaxSteps = 60000
  Family = "deep"
  Tier = "quick"
  Depths = {40, 150}
  Lengths = {300}
  CallDepths = {100}
INIT DInit
NEXT DNext
INVARIANT DEmit
CHECK_DEADLOCK FALSE
