CONSTANTS
  SuffixUsesStaleLine = FALSE
  MaxChars = 100000
INIT Init
NEXT Next
INVARIANT Emit
CHECK_DEADLOCK FALSE
