CONSTANTS
  MaxSteps = 3000
  Family = "RN"
  Tier = "quick"
INIT Init
NEXT Next
INVARIANT Inv
INVARIANT NamesInv
INVARIANT Emit
CHECK_DEADLOCK FALSE
