CONSTANTS
  MaxSteps = 3000
  Kind = "corpusvisit"
  Tier = "quick"
INIT Init
NEXT Next
INVARIANT FoldSound
INVARIANT ReportShape
INVARIANT WalkShape
INVARIANT Emit
CHECK_DEADLOCK FALSE
