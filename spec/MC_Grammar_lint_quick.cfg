CONSTANTS
  MaxSteps = 3000
  Family = "lint"
  Tier = "quick"
INIT Init
NEXT Next
INVARIANT Emit
CHECK_DEADLOCK FALSE
