CONSTANTS
  MaxSteps = 100
  Family = "block"
  Tier = "quick"
INIT Init
NEXT Next
INVARIANT RoundTrip
INVARIANT Emit
CHECK_DEADLOCK FALSE
