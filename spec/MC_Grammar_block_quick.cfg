CONSTANTS
  MaxSteps = 100
  Family = "block"
  Tier = "quick"
INIT Init
NEXT Next
INVARIANT Emit
CHECK_DEADLOCK FALSE
