------------------------------ MODULE CliFormat ------------------------------
(* How the command-line tool frames what the library produces (shared by the process model Cli.tla and by CliTrace.tla). *)
EXTENDS Integers, Sequences

NL == "\n"
RECURSIVE NatStr(_)
NatStr(k) == IF k < 10 THEN SubSeq("0123456789", k + 1, k + 1) ELSE NatStr(k \div 10) \o SubSeq("0123456789", (k % 10) + 1, (k % 10) + 1)
RECURSIVE JoinSuggs(_)
JoinSuggs(ss) == IF ss = <<>> THEN "" ELSE NL \o "\t" \o Head(ss) \o JoinSuggs(Tail(ss))
DiagText(d) == "Lint issue: (line " \o NatStr(d.line) \o ") " \o d.issue \o JoinSuggs(d.suggs) \o NL

(* the final observation of a run with parameters P: a function, because the machine is deterministic *)
Final(p) ==
  LET RECURSIVE Cat(_) Cat(ls) == IF ls = <<>> THEN "" ELSE Head(ls) \o NL \o Cat(Tail(ls))
      RECURSIVE CatD(_) CatD(ds) == IF ds = <<>> THEN "" ELSE DiagText(Head(ds)) \o CatD(Tail(ds))
  IN
  IF p.usage = "bad" THEN [stdout |-> "", errclass |-> "usage", nonzero |-> TRUE]
  ELSE IF p.file = "missing" THEN [stdout |-> "", errclass |-> "io", nonzero |-> TRUE]
  ELSE CASE p.lib.k = "parse_error" -> [stdout |-> "", stderr |-> "Parse error: " \o p.lib.msg \o NL, nonzero |-> FALSE]
         [] p.lib.k = "run" -> [stdout |-> Cat(p.lib.out),
                                stderr |-> IF p.lib.err = <<>> THEN "" ELSE "Runtime error: " \o p.lib.err[1] \o NL, nonzero |-> FALSE]
         [] p.lib.k = "diags" -> [stdout |-> IF p.lib.ds = <<>> THEN "No lint issues found :)" ELSE CatD(p.lib.ds), stderr |-> "", nonzero |-> FALSE]
         [] p.lib.k = "tree" -> [stdout |-> p.lib.dump \o NL, stderr |-> "", nonzero |-> FALSE]
         [] OTHER -> [stdout |-> "<no such library outcome: " \o p.lib.k \o ">", stderr |-> "", nonzero |-> FALSE]
=============================================================================
