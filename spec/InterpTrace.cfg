CONSTANT MaxSteps = 200000
SPECIFICATION Spec
INVARIANT Inv
CONSTRAINT Track
POSTCONDITION Accepted
CHECK_DEADLOCK FALSE
