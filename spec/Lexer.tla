-------------------------------- MODULE Lexer --------------------------------
(***************************************************************************)
(* Character-level model of the rrss lexer (src/frontend/lexer.rs).        *)
(*                                                                         *)
(* Scan(src, i, line, ls) is one iteration of Lexer::match_loop: starting  *)
(* at character index i (1-based) with `line` the current line number and  *)
(* `ls` the byte offset of the start of the current line, it finds the     *)
(* next start character and dispatches on it exactly as the code does,     *)
(* returning which arm fired, the token produced (if any), a staged 's/'re *)
(* suffix token (if any) and the lexer state after the arm.                *)
(*                                                                         *)
(* Positions: character indices are 1-based, a token covers the characters *)
(* [pb, pe); byte offsets are prefix sums of Width.  A token is the record *)
(*   [id, sp (spelling), b, e (byte offsets), sl, sc, el, ec (positions)]  *)
(***************************************************************************)
EXTENDS Chars, Tokens, TLC

CONSTANT SuffixUsesStaleLine      \* TRUE re-creates the defect repaired in fd62054 (specification self-test)

-----------------------------------------------------------------------------
(* text helpers *)
RECURSIVE OffR(_, _)
OffR(src, k) == IF k <= 1 THEN 0 ELSE Width(CharAt(src, k - 1)) + OffR(src, k - 1)
Off(src, k) == OffR(src, k)                      \* byte offset of character k (k may be Len + 1)

FindWordEnd(src, k) ==        \* find_next_word_end, searching from k
  LET RECURSIVE F(_)
      F(j) == IF j > Len(src) THEN Len(src) + 1
              ELSE IF IsWhitespace(CharAt(src, j)) \/ IsIgnorablePunct(CharAt(src, j)) THEN j ELSE F(j + 1)
  IN F(k)
FindNumEnd(src, k) ==         \* end of the run of ASCII alphanumerics and periods
  LET RECURSIVE F(_)
      F(j) == IF j > Len(src) THEN Len(src) + 1
              ELSE IF IsAsciiAlnum(CharAt(src, j)) \/ CharAt(src, j) = "." THEN F(j + 1) ELSE j
  IN F(k)
FindNonBlank(src, k) ==       \* first character that is not ignorable white space
  LET RECURSIVE F(_)
      F(j) == IF j > Len(src) THEN Len(src) + 1 ELSE IF IsBlank(CharAt(src, j)) THEN F(j + 1) ELSE j
  IN F(k)
FindChar(src, c, k) ==
  LET RECURSIVE F(_)
      F(j) == IF j > Len(src) THEN 0 ELSE IF CharAt(src, j) = c THEN j ELSE F(j + 1)
  IN F(k)
Find(src, c, k) == FindChar(src, c, k)
CountNl(src, a, b) ==         \* newlines among characters a..b
  LET RECURSIVE F(_)
      F(j) == IF j > b THEN 0 ELSE (IF CharAt(src, j) = "\n" THEN 1 ELSE 0) + F(j + 1)
  IN F(a)
LastNl(src, a, b) ==          \* index of the last newline among characters a..b, 0 if none
  LET RECURSIVE F(_)
      F(j) == IF j < a THEN 0 ELSE IF CharAt(src, j) = "\n" THEN j ELSE F(j - 1)
  IN F(b)
Sub(src, a, b) == Slice(src, a, b - 1)          \* characters [a, b)
StartsWith(src, k, t) == Slice(src, k, k + Len(t) - 1) = t

(* Rust's f64 grammar restricted to what a digit / period run can contain: *)
(* digits [ . digits ] [ (e|E) digits ], at least one mantissa digit       *)
IsF64(t) ==
  LET RECURSIVE D(_)            \* end of the digit run starting at j
      D(j) == IF j <= Len(t) /\ IsAsciiDigit(CharAt(t, j)) THEN D(j + 1) ELSE j
      a == D(1)                                     \* after the integer digits
      hasDot == a <= Len(t) /\ CharAt(t, a) = "."
      b == IF hasDot THEN D(a + 1) ELSE a           \* after the fraction digits
      nd == (a - 1) + (IF hasDot THEN b - a - 1 ELSE 0)
      hasExp == b <= Len(t) /\ CharAt(t, b) \in {"e", "E"}
      c == IF hasExp THEN D(b + 1) ELSE b
  IN nd >= 1 /\ c = Len(t) + 1 /\ (hasExp => c > b + 1)

-----------------------------------------------------------------------------
(* tokens *)
Tok(src, id, pb, pe, sl, sc, el, ec) ==
  [id |-> id, sp |-> Sub(src, pb, pe), b |-> Off(src, pb), e |-> Off(src, pe), sl |-> sl, sc |-> sc, el |-> el, ec |-> ec]
LineTok(src, id, pb, pe, line, ls) ==             \* a token within the current line
  Tok(src, id, pb, pe, line, Off(src, pb) - ls, line, Off(src, pe) - ls)

NoTok == [id |-> "none"]

(* the 's / 're suffix that may directly follow a number, string or        *)
(* comment ending at character index q (scan_apostrophe_suffix)            *)
Suffix(src, q, line, ls) ==
  IF StartsWith(src, q, "'s") THEN <<LineTok(src, "apos_s", q, q + 2, line, ls)>>
  ELSE IF StartsWith(src, q, "'re") THEN <<LineTok(src, "apos_re", q, q + 3, line, ls)>>
  ELSE <<>>
SuffixLen(s) == IF s = <<>> THEN 0 ELSE Len(s[1].sp)

Result(arm, tok, staged, ni, nline, nls) ==
  [arm |-> arm, tok |-> tok, staged |-> staged, ni |-> ni, line |-> nline, ls |-> nls]

ScanNumber(src, p, line, ls) ==     \* <<ok, result>> : scan_number
  LET e == FindNumEnd(src, p + 1)
      t == Sub(src, p, e)
      sfx == Suffix(src, e, line, ls)
  IN <<IsF64(t), Result("LexNumber", LineTok(src, "number", p, e, line, ls), sfx, e + SuffixLen(sfx), line, ls)>>

ErrorTok(src, arm, p, line, ls) ==  \* make_error_token: from p to the end of the "word"
  LET e == FindWordEnd(src, p + 1) IN
  Result(arm, LineTok(src, "error", p, e, line, ls), <<>>, e, line, ls)

ScanDelimited(src, arm, id, p, close, line, ls) ==
  LET q   == FindChar(src, close, p + 1)
      pe  == IF q = 0 THEN Len(src) + 1 ELSE q + 1           \* one past the token
      nl  == CountNl(src, p + 1, pe - 1)
      lnl == LastNl(src, p + 1, pe - 1)
      el  == line + nl
      els == IF lnl = 0 THEN ls ELSE Off(src, lnl + 1)
      tok == Tok(src, IF q = 0 THEN "error" ELSE id, p, pe, line, Off(src, p) - ls, el, Off(src, pe) - els)
      sfx == IF SuffixUsesStaleLine THEN Suffix(src, pe, line, ls) ELSE Suffix(src, pe, el, els)
  IN Result(arm, tok, sfx, pe + SuffixLen(sfx), el, els)

Word(src, p, line, ls) ==           \* scan_keyword, else scan_word / tokenize_word
  LET e == FindWordEnd(src, p + 1)
      t == Sub(src, p, e)
      low == Lower(t)
      IsWordish(c) == IsAlphabetic(c) \/ c = "'"
      n == Len(t)
      sfxS  == n >= 2 /\ SubSeq(t, n - 1, n) \in {"'s", "'S"}
      sfxRE == n >= 3 /\ SubSeq(t, n - 2, n) \in {"'re", "'RE", "'Re", "'rE"}
      RECURSIVE Trim(_)
      Trim(m) == IF m > 0 /\ CharAt(t, m) = "'" THEN Trim(m - 1) ELSE m
      sl == IF sfxS THEN n - 2 ELSE IF sfxRE THEN n - 3 ELSE Trim(n)       \* length of the stripped word
      stripped == SubSeq(t, 1, sl)
      staged == IF sfxS THEN <<LineTok(src, "apos_s", e - 2, e, line, ls)>>
                ELSE IF sfxRE THEN <<LineTok(src, "apos_re", e - 3, e, line, ls)>>
                ELSE <<>>
  IN IF IsKeyword(low) THEN Result("LexKeyword", LineTok(src, KeywordKind(low), p, e, line, ls), <<>>, e, line, ls)
     ELSE IF AllChars(t, IsWordish)
          THEN Result("LexWord", LineTok(src, KeywordKind(Lower(stripped)), p, p + sl, line, ls), staged, e, line, ls)
     ELSE Result("LexBadIdentifier", LineTok(src, "error", p, e, line, ls), <<>>, e, line, ls)

(* one iteration of match_loop from character index i *)
Scan(src, i, line, ls) ==
  LET p == IF StartsWith(src, i, "'n'") THEN i ELSE FindNonBlank(src, i)
      c == CharAt(src, p)
      one(id) == Result("LexSingleChar", LineTok(src, id, p, p + 1, line, ls), <<>>, p + 1, line, ls)
  IN
  IF p > Len(src) THEN Result("Finish", NoTok, <<>>, Len(src) + 1, line, ls)
  ELSE CASE c = "\n" -> Result("LexNewline", LineTok(src, "newline", p, p + 1, line, ls), <<>>, p + 1, line + 1, Off(src, p + 1))
         [] c = "." -> LET r == ScanNumber(src, p, line, ls) IN
                       IF r[1] THEN [r[2] EXCEPT !.arm = "LexDotNumber"] ELSE [one("dot") EXCEPT !.arm = "LexDot"]
         [] c = "," -> one("comma")
         [] c = "&" -> one("ampersand")
         [] c = "+" -> one("plus")
         [] c = "-" -> one("minus")
         [] c = "*" -> one("multiply")
         [] c = "/" -> one("divide")
         [] c = "\"" -> ScanDelimited(src, "LexString", "string", p, "\"", line, ls)
         [] c = "(" -> ScanDelimited(src, "LexComment", "comment", p, ")", line, ls)
         [] c = "_" -> ErrorTok(src, "LexUnderscore", p, line, ls)
         [] c = "<" -> IF CharAt(src, p + 1) = "="
                       THEN Result("LexRelational", LineTok(src, "lesseq", p, p + 2, line, ls), <<>>, p + 2, line, ls)
                       ELSE Result("LexRelational", LineTok(src, "less", p, p + 1, line, ls), <<>>, p + 1, line, ls)
         [] c = ">" -> IF CharAt(src, p + 1) = "="
                       THEN Result("LexRelational", LineTok(src, "greatereq", p, p + 2, line, ls), <<>>, p + 2, line, ls)
                       ELSE Result("LexRelational", LineTok(src, "greater", p, p + 1, line, ls), <<>>, p + 1, line, ls)
         [] OTHER ->
              IF StartsWith(src, p, "'n'")
              THEN Result("LexAposNApos", LineTok(src, "apos_n", p, p + 3, line, ls), <<>>, p + 3, line, ls)
              ELSE IF IsIgnorablePunct(c) \/ c = "'" THEN Result("SkipIgnorable", NoTok, <<>>, p + 1, line, ls)
              ELSE IF IsNumeric(c) THEN
                     LET r == ScanNumber(src, p, line, ls) IN
                     IF r[1] THEN r[2] ELSE ErrorTok(src, "LexBadNumber", p, line, ls)
              ELSE IF IsAlphabetic(c) THEN Word(src, p, line, ls)
              ELSE ErrorTok(src, "LexInvalid", p, line, ls)

Arms == {"Finish", "LexNewline", "LexDotNumber", "LexDot", "LexSingleChar", "LexString", "LexComment", "LexUnderscore",
         "LexRelational", "LexAposNApos", "SkipIgnorable", "LexNumber", "LexBadNumber", "LexKeyword", "LexWord",
         "LexBadIdentifier", "LexInvalid"}

(* the whole token sequence of a text (used by the parser model) *)
RECURSIVE LexFrom(_, _, _, _, _)
LexFrom(src, i, line, ls, fuel) ==
  IF fuel = 0 THEN <<[id |-> "outoffuel"]>>
  ELSE LET r == Scan(src, i, line, ls) IN
       IF r.arm = "Finish" THEN <<>>
       ELSE (IF r.tok.id = "none" THEN <<>> ELSE <<r.tok>>) \o r.staged \o LexFrom(src, r.ni, r.line, r.ls, fuel - 1)
LexAll(src) == LexFrom(src, 1, 1, 0, Len(src) + 2)

-----------------------------------------------------------------------------
(* C12, stated on a token sequence directly from the text, not from the    *)
(* lexer's bookkeeping                                                     *)
(* per-text tables, computed in one pass: off[k] byte offset of character   *)
(* k (k = Len + 1 for the end), line[k] the 1-based line character k lies  *)
(* on, lstart[k] the byte offset at which that line starts, and inv[b + 1] *)
(* the character index at byte offset b (0 when b is inside a character)   *)
RECURSIVE CtxR(_, _, _, _, _, _, _, _)
CtxR(src, k, o, ln, st, offs, lines, lstarts) ==
  IF k > Len(src) + 1 THEN [off |-> offs, line |-> lines, lstart |-> lstarts]
  ELSE LET c == CharAt(src, k) IN
       CtxR(src, k + 1, o + (IF k <= Len(src) THEN Width(c) ELSE 0),
            IF c = "\n" THEN ln + 1 ELSE ln,
            IF c = "\n" THEN o + 1 ELSE st,
            Append(offs, o), Append(lines, ln), Append(lstarts, st))
RECURSIVE InvR(_, _, _, _)
InvR(offs, k, b, acc) ==        \* acc[b + 1] for b = 0 .. total
  IF k > Len(offs) THEN acc
  ELSE IF offs[k] = b THEN InvR(offs, k + 1, b + 1, Append(acc, k))
  ELSE InvR(offs, k, b + 1, Append(acc, 0))
Ctx(src) ==
  LET t == CtxR(src, 1, 0, 1, 0, <<>>, <<>>, <<>>) IN
  [off |-> t.off, line |-> t.line, lstart |-> t.lstart, inv |-> InvR(t.off, 1, 0, <<>>), total |-> t.off[Len(src) + 1]]

CharIndexOfByte(src, b) ==      \* the character index whose byte offset is b (Len + 1 for the end); 0 if not a boundary
  LET cx == Ctx(src) IN IF b < 0 \/ b > cx.total THEN 0 ELSE cx.inv[b + 1]

InBoundsC(src, cx, t) ==
  /\ 0 <= t.b /\ t.b <= t.e /\ t.e <= cx.total
  /\ cx.inv[t.b + 1] # 0 /\ cx.inv[t.e + 1] # 0
  /\ t.sp = Sub(src, cx.inv[t.b + 1], cx.inv[t.e + 1])

TrueStartC(src, cx, t) ==       \* line = 1 + preceding newlines, column = bytes since the start of that line
  LET pb == cx.inv[t.b + 1] IN
  /\ t.sl = cx.line[pb]
  /\ t.sc = t.b - cx.lstart[pb]

TrueEndC(src, cx, t) ==         \* one byte past the last character, on that character's line
  LET pe == cx.inv[t.e + 1] IN
  pe > 1 /\ t.e > t.b /\ CharAt(src, pe - 1) # "\n" =>
     /\ t.el = cx.line[pe - 1]
     /\ t.ec = t.e - cx.lstart[pe - 1]

GapIgnorableC(src, cx, a, b) == \* every character with byte offset in [a, b) is ignorable and not a newline
  \A k \in cx.inv[a + 1]..(cx.inv[b + 1] - 1) :
     LET c == CharAt(src, k) IN IsBlank(c) \/ IsIgnorablePunct(c) \/ c = "'"
GapIgnorable(src, a, b) == GapIgnorableC(src, Ctx(src), a, b)

TokensWellFormed(src, toks) ==
  LET cx == Ctx(src) IN
  /\ \A n \in 1..Len(toks) : InBoundsC(src, cx, toks[n]) /\ TrueStartC(src, cx, toks[n]) /\ TrueEndC(src, cx, toks[n])
  /\ \A n \in 1..(Len(toks) - 1) : toks[n].e <= toks[n + 1].b /\ GapIgnorableC(src, cx, toks[n].e, toks[n + 1].b)
  /\ toks # <<>> => GapIgnorableC(src, cx, 0, toks[1].b)
  /\ \A n \in 1..Len(toks) : toks[n].sp # ""

=============================================================================
