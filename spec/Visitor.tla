------------------------------- MODULE Visitor -------------------------------
(***************************************************************************)
(* The traversal contract of the visitor framework (C16).                  *)
(*                                                                         *)
(* ExprVisitorRunner<T> walks a program and presents every leaf            *)
(* (binary and unary operators, identifiers, pronouns, literals,           *)
(* poetic-literal elements) to T's callbacks, children in field order,     *)
(* folding the callback results.  The fold is visible when    *)
(* the result type is a free term algebra:                                 *)
(*     Def                the Default value (what `leaf` returns)          *)
(*     Leaf(label)        what a callback returned                         *)
(*     Comb(a, b)         a.combine(b)                                     *)
(* `combine_all(x1..xn)` is Comb(..Comb(Comb(Def, x1), x2).., xn).         *)
(*                                                                         *)
(* Walk(t) is the pair [log, term]: the callbacks in order, and the fold.  *)
(* Syntax trees are the records of Interp.tla plus the poetic literal      *)
(* [e |-> "plit", elems |-> << [k |-> "w"|"s"|"d", s |-> text], ... >>].   *)
(***************************************************************************)
EXTENDS Integers, Sequences, TLC

Def == [k |-> "def"]
Leaf(l) == [k |-> "leaf", l |-> l]
Comb(a, b) == [k |-> "comb", a |-> a, b |-> b]

W(log, term) == [log |-> log, term |-> term]
Cb(label) == W(<<label>>, Leaf(label))                 \* one callback
Nothing == W(<<>>, Def)                                \* `leaf(..)` of a non-callback default
Then(a, b) == W(a.log \o b.log, Comb(a.term, b.term))   \* a.combine(b), a visited first

RECURSIVE CombineAll(_, _)                             \* combine_all over already computed walks, acc first
CombineAll(acc, ws) == IF ws = <<>> THEN acc ELSE CombineAll(Then(acc, Head(ws)), Tail(ws))
All(ws) == CombineAll(Nothing, ws)

LitLabel(v) == CASE v.t = "myst" -> "lit:mysterious" [] v.t = "null" -> "lit:null"
                 [] v.t = "bool" -> (IF v.b THEN "lit:true" ELSE "lit:false")
                 [] v.t = "num" -> "lit:number" [] v.t = "str" -> "lit:str:" \o v.s

RECURSIVE WExpr(_)
RECURSIVE WExprs(_)
WExprs(es) == IF es = <<>> THEN <<>> ELSE <<WExpr(Head(es))>> \o WExprs(Tail(es))
WElems(es) == [i \in 1..Len(es) |-> Cb(CASE es[i].k = "w" -> "pw:" \o es[i].s [] es[i].k = "s" -> "ps:" \o es[i].s [] OTHER -> "pd")]
WExpr(e) ==
  CASE e.e = "lit"  -> Cb(LitLabel(e.v))
    [] e.e = "var"  -> Cb("id:" \o e.n)
    [] e.e = "pro"  -> Cb("pro")
    [] e.e = "idx"  -> Then(WExpr(e.a), WExpr(e.k))
    [] e.e = "call" -> All(<<Cb("id:" \o e.f)>> \o WExprs(e.args))
    [] e.e = "roll" -> WExpr(e.a)
    [] e.e = "un"   -> Then(Cb("un:" \o e.op), WExpr(e.x))
    [] e.e = "bin"  -> Then(Then(WExpr(e.l), Cb("op:" \o e.op)), All(WExprs(e.r)))
    [] e.e = "plit" -> All(WElems(e.elems))
    [] e.e = "none" -> Nothing

RECURSIVE WStmt(_)
RECURSIVE WBlock(_)
WBlock(ss) == IF ss = <<>> THEN Nothing                       \* Block::Empty is `leaf`
              ELSE All([i \in 1..Len(ss) |-> WStmt(ss[i])])
Opt(e) == IF e.e = "none" THEN Nothing ELSE WExpr(e)
WStmt(s) ==
  CASE s.s = "assign" -> Then(Then(WExpr(s.dest), IF s.op = "none" THEN Nothing ELSE Cb("op:" \o s.op)), All(WExprs(s.vals)))
    [] s.s = "pnum"   -> Then(WExpr(s.dest), WExpr(s.e))
    [] s.s = "pstr"   -> WExpr(s.dest)
    [] s.s = "if"     -> Then(Then(WExpr(s.c), WBlock(s.th)), IF s.hasElse THEN WBlock(s.el) ELSE Nothing)
    [] s.s \in {"while", "until"} -> Then(WExpr(s.c), WBlock(s.body))
    [] s.s \in {"inc", "dec"} -> WExpr(s.dest)
    [] s.s = "listen" -> Opt(s.dest)
    [] s.s = "say"    -> WExpr(s.e)
    \* the mutation operator and the rounding direction are callbacks of the program visitor (the runner itself), which an
    \* expression visitor cannot override: they contribute the Default value and no callback
    [] s.s = "mut"    -> Then(Then(Then(Nothing, WExpr(s.operand)), Opt(s.dest)), Opt(s.param))
    [] s.s = "turn"   -> Then(Nothing, WExpr(s.e))
    [] s.s \in {"break", "continue"} -> Nothing
    [] s.s = "rock"   -> Then(WExpr(s.a), IF s.vals = <<>> THEN Nothing
                                          ELSE IF s.vals[1].e = "plit" THEN WExpr(s.vals[1]) ELSE All(WExprs(s.vals)))
    [] s.s = "rollst" -> Then(WExpr(s.a), Opt(s.dest))
    [] s.s = "return" -> WExpr(s.e)
    [] s.s = "func"   -> Then(Cb("id:" \o s.name), Then(All([i \in 1..Len(s.ps) |-> Cb("id:" \o s.ps[i])]), WBlock(s.body)))
    [] s.s = "callst" -> All(<<Cb("id:" \o s.f)>> \o WExprs(s.args))

WProgram(bs) == All([i \in 1..Len(bs) |-> WBlock(bs[i])])

-----------------------------------------------------------------------------
(* The full presentation log: every method of the expression-visitor interface the runner (or a default method) invokes, in    *)
(* order - composite nodes as well as leaves.  A visitor that overrides a composite method (say visit_array_pop_expr) and then   *)
(* continues with the default traversal sees exactly this sequence.  Labels: lhs rhs pnrhs plit pushrhs pop elist expr prim bin   *)
(* unary sub call ident name, and the leaf labels of the walk above.                                                              *)
RECURSIVE Flat(_)
Flat(ss) == IF ss = <<>> THEN <<>> ELSE Head(ss) \o Flat(Tail(ss))
SName(n) == <<"name", "id:" \o n>>
SIdent(e) == <<"ident">> \o (IF e.e = "pro" THEN <<"pro">> ELSE SName(e.n))
RECURSIVE SE(_)          \* a node in an Expression position
RECURSIVE SP(_)          \* a node in a PrimaryExpression position
SEs(es) == Flat([i \in 1..Len(es) |-> SE(es[i])])
SP(e) == <<"prim">> \o
  (CASE e.e = "lit" -> <<LitLabel(e.v)>>
     [] e.e \in {"var", "pro"} -> SIdent(e)
     [] e.e = "idx" -> <<"sub">> \o SP(e.a) \o SP(e.k)
     [] e.e = "call" -> <<"call">> \o SName(e.f) \o SEs(e.args)
     [] e.e = "roll" -> <<"pop">> \o SP(e.a))
SE(e) == <<"expr">> \o
  (CASE e.e = "bin" -> <<"bin">> \o SE(e.l) \o <<"op:" \o e.op, "elist">> \o SEs(e.r)
     [] e.e = "un" -> <<"unary", "un:" \o e.op>> \o SE(e.x)
     [] OTHER -> SP(e))
SLhs(e) == <<"lhs">> \o (IF e.e = "idx" THEN <<"sub">> \o SP(e.a) \o SP(e.k) ELSE SIdent(e))
SOptLhs(e) == IF e.e = "none" THEN <<>> ELSE SLhs(e)
SPlit(e) == <<"plit">> \o [i \in 1..Len(e.elems) |-> CASE e.elems[i].k = "w" -> "pw:" \o e.elems[i].s [] e.elems[i].k = "s" -> "ps:" \o e.elems[i].s [] OTHER -> "pd"]
RECURSIVE SS(_)
SB(ss) == Flat([i \in 1..Len(ss) |-> SS(ss[i])])
SS(s) ==
  CASE s.s = "assign" -> SLhs(s.dest) \o (IF s.op = "none" THEN <<>> ELSE <<"op:" \o s.op>>) \o <<"rhs", "elist">> \o SEs(s.vals)
    [] s.s = "pnum"   -> SLhs(s.dest) \o <<"pnrhs">> \o (IF s.e.e = "plit" THEN SPlit(s.e) ELSE SE(s.e))
    [] s.s = "pstr"   -> SLhs(s.dest)
    [] s.s = "if"     -> SE(s.c) \o SB(s.th) \o (IF s.hasElse THEN SB(s.el) ELSE <<>>)
    [] s.s \in {"while", "until"} -> SE(s.c) \o SB(s.body)
    [] s.s \in {"inc", "dec"} -> SIdent(s.dest)
    [] s.s = "listen" -> SOptLhs(s.dest)
    [] s.s \in {"say", "return", "turn"} -> SE(s.e)
    [] s.s = "mut"    -> SP(s.operand) \o SOptLhs(s.dest) \o (IF s.param.e = "none" THEN <<>> ELSE SE(s.param))
    [] s.s \in {"break", "continue"} -> <<>>
    [] s.s = "rock"   -> SP(s.a) \o (IF s.vals = <<>> THEN <<>>
                                      ELSE <<"pushrhs">> \o (IF s.vals[1].e = "plit" THEN SPlit(s.vals[1]) ELSE <<"elist">> \o SEs(s.vals)))
    [] s.s = "rollst" -> <<"pop">> \o SP(s.a) \o SOptLhs(s.dest)
    [] s.s = "func"   -> SName(s.name) \o Flat([i \in 1..Len(s.ps) |-> SName(s.ps[i])]) \o SB(s.body)
    [] s.s = "callst" -> <<"call">> \o SName(s.f) \o SEs(s.args)
SProgram(bs) == Flat([i \in 1..Len(bs) |-> SB(bs[i])])

(* the leaf callbacks are the presentation log without its composite labels *)
Composite == {"lhs", "rhs", "pnrhs", "plit", "pushrhs", "pop", "elist", "expr", "prim", "bin", "unary", "sub", "call", "ident", "name"}
LeavesOf(log) == SelectSeq(log, LAMBDA l : l \notin Composite)
PresentationCoversWalk(bs) == LeavesOf(SProgram(bs)) = WProgram(bs).log

(* the inventory of visitable leaves, by generic recursion over all fields (independent of the walk order) *)
RECURSIVE NodesE(_)
RECURSIVE NodesS(_)
Sum(f, n) == LET RECURSIVE S(_) S(i) == IF i > n THEN 0 ELSE f[i] + S(i + 1) IN S(1)
NodesE(e) ==
  CASE e.e \in {"lit", "var", "pro"} -> 1
    [] e.e = "idx" -> NodesE(e.a) + NodesE(e.k)
    [] e.e = "call" -> 1 + Sum([i \in 1..Len(e.args) |-> NodesE(e.args[i])], Len(e.args))
    [] e.e = "roll" -> NodesE(e.a)
    [] e.e = "un" -> 1 + NodesE(e.x)
    [] e.e = "bin" -> 1 + NodesE(e.l) + Sum([i \in 1..Len(e.r) |-> NodesE(e.r[i])], Len(e.r))
    [] e.e = "plit" -> Len(e.elems)
    [] e.e = "none" -> 0
NodesB(ss) == Sum([i \in 1..Len(ss) |-> NodesS(ss[i])], Len(ss))
NodesS(s) ==
  CASE s.s = "assign" -> NodesE(s.dest) + (IF s.op = "none" THEN 0 ELSE 1) + Sum([i \in 1..Len(s.vals) |-> NodesE(s.vals[i])], Len(s.vals))
    [] s.s = "pnum" -> NodesE(s.dest) + NodesE(s.e)
    [] s.s = "pstr" -> NodesE(s.dest)
    [] s.s = "if" -> NodesE(s.c) + NodesB(s.th) + (IF s.hasElse THEN NodesB(s.el) ELSE 0)
    [] s.s \in {"while", "until"} -> NodesE(s.c) + NodesB(s.body)
    [] s.s \in {"inc", "dec", "listen"} -> NodesE(s.dest)
    [] s.s \in {"say", "return"} -> NodesE(s.e)
    [] s.s = "mut" -> NodesE(s.operand) + NodesE(s.dest) + NodesE(s.param)
    [] s.s = "turn" -> NodesE(s.e)
    [] s.s \in {"break", "continue"} -> 0
    [] s.s = "rock" -> NodesE(s.a) + Sum([i \in 1..Len(s.vals) |-> NodesE(s.vals[i])], Len(s.vals))
    [] s.s = "rollst" -> NodesE(s.a) + NodesE(s.dest)
    [] s.s = "func" -> 1 + Len(s.ps) + NodesB(s.body)
    [] s.s = "callst" -> 1 + Sum([i \in 1..Len(s.args) |-> NodesE(s.args[i])], Len(s.args))
NodesP(bs) == Sum([i \in 1..Len(bs) |-> NodesB(bs[i])], Len(bs))

(* C16 on the model: every leaf is presented exactly once (the log is as long as the inventory and the term has *)
(* exactly the log's leaves, in order)                                                                          *)
RECURSIVE Leaves(_)
Leaves(t) == CASE t.k = "def" -> <<>> [] t.k = "leaf" -> <<t.l>> [] t.k = "comb" -> Leaves(t.a) \o Leaves(t.b)
EachOnceInOrder(bs) == LET w == WProgram(bs) IN Len(w.log) = NodesP(bs) /\ Leaves(w.term) = w.log

(* stop at the first error: when callback number k fails the log is the first k callbacks *)
FailLog(bs, k) == SubSeq(WProgram(bs).log, 1, k)
=============================================================================
