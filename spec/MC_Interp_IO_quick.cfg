CONSTANTS
  MaxSteps = 3000
  Family = "IO"
  Tier = "quick"
INIT Init
NEXT Next
INVARIANT Inv
INVARIANT ChunkIndependent
INVARIANT Emit
PROPERTY StepOK
CHECK_DEADLOCK FALSE
