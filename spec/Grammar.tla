------------------------------- MODULE Grammar -------------------------------
(***************************************************************************)
(* The surface syntax of Rockstar as rrss accepts it, as a RENDERER: a     *)
(* syntax tree (the records of Interp.tla) and a choice tape determine one *)
(* source text.  Every place where the language offers alternative         *)
(* spellings is a choice point; it consumes the next element of the tape   *)
(* (0 = the default spelling).  The all-zero tape is the canonical         *)
(* rendering; a tape with one non-zero element varies exactly one choice.  *)
(*                                                                         *)
(* Choice points: keyword alias and letter case; symbolic or worded        *)
(* operators; `put .. into` / `let .. be`; list and argument separators;   *)
(* optional words and word orders (give back / give .. back / return,      *)
(* break / break it down, continue / take it to the top, turn up x /       *)
(* turn x up, listen / listen to); the spelling of a name at each mention  *)
(* (letter case); aliases of literal words and pronouns; numeral           *)
(* spellings; the noise between tokens of a statement (blanks, tabs,       *)
(* ignorable punctuation, comments, multi-line comments); the decoration   *)
(* of a line end (`,` `.` trailing blank, CR LF).                          *)
(*                                                                         *)
(* Rendering state: [t: text so far, k: next tape position, alts: number   *)
(* of alternatives of every choice point met, lines: line of each          *)
(* statement in pre-order, ln: current line].                              *)
(***************************************************************************)
EXTENDS Values, TLC

TK == INSTANCE Tokens
NMS == INSTANCE Names

NL == "\n"

St0 == [t |-> "", k |-> 1, alts |-> <<>>, lines |-> <<>>, ln |-> 1]
TapeAt(tp, k) == IF k <= Len(tp) THEN tp[k] ELSE 0
(* a choice among n alternatives: <<chosen index in 0..n-1, new state>> *)
Pick(st, tp, n) == << TapeAt(tp, st.k) % n, [st EXCEPT !.k = st.k + 1, !.alts = Append(st.alts, n)] >>
CountNl(s) == LET RECURSIVE C(_) C(i) == IF i > Len(s) THEN 0 ELSE (IF CharAt(s, i) = NL THEN 1 ELSE 0) + C(i + 1) IN C(1)
Out(st, s) == [st EXCEPT !.t = st.t \o s, !.ln = st.ln + CountNl(s)]

-----------------------------------------------------------------------------
(* letter case of keywords and names *)
CaseOf(w, c) == CASE c = 0 -> w [] c = 1 -> NMS!Cap(w) [] c = 2 -> NMS!Upper(w)

(* a keyword of the given kind: alias x case *)
Kw(st, tp, kind) ==
  LET al == TK!Aliases[kind]
      p == Pick(st, tp, 3 * Len(al))
  IN Out(p[2], CaseOf(al[(p[1] \div 3) + 1], p[1] % 3))
(* a fixed word whose case may vary (it, the, down ... in the multi-word forms) *)
Word(st, tp, w) == LET p == Pick(st, tp, 3) IN Out(p[2], CaseOf(w, p[1]))

(* the gap between two tokens of a statement: `noise` is the statement's noise style *)
NoiseStyles == <<" ", "  ", "\t", " ! ", " (c) ", " ; : ", " (a" \o NL \o "b) ", " ? ", "|", " \r ">>     \* `|` is U+3000
Gap(st, noise) == Out(st, NoiseStyles[noise + 1])

-----------------------------------------------------------------------------
(* names: naming[n] is the sequence of spellings of abstract name n *)
NameText(v) ==      \* a concrete name tuple as source text
  LET RECURSIVE J(_) J(i) == IF i > Len(v) THEN "" ELSE (IF i > 2 THEN " " ELSE "") \o v[i] \o J(i + 1) IN J(2)
Name(st, tp, naming, n) ==
  LET vs == naming[n] p == Pick(st, tp, Len(vs)) IN Out(p[2], NameText(vs[p[1] + 1]))

-----------------------------------------------------------------------------
(* literals *)
NumSpellings(v) ==    \* texts that denote exactly the number v (v finite, not negative)
  LET s == NumToStr(v) IN
  IF v.n % Den = 0 THEN <<s, s \o ".0", "0" \o s, s \o "e0">> ELSE <<s, s \o "0", "0" \o s, SubSeq(s, 2, Len(s))>>
RLit(st, tp, v) ==
  CASE v.t = "myst" -> Kw(st, tp, "k_mysterious")
    [] v.t = "null" -> Kw(st, tp, "k_null")
    [] v.t = "bool" -> Kw(st, tp, IF v.b THEN "k_true" ELSE "k_false")
    [] v.t = "num"  -> LET sp == IF v.c = "big" THEN <<v.d, v.d \o ".0", "0" \o v.d>>                      \* symbolic numbers: the canonical text and
                                 ELSE IF v.c = "tiny" THEN <<v.d, v.d \o "0", SubSeq(v.d, 2, Len(v.d))>>      \* spellings of the same decimal numeral
                                 ELSE IF v.c = "dec" THEN <<v.d, v.d \o "0", IF SubSeq(v.d, 1, 2) = "0." THEN SubSeq(v.d, 2, Len(v.d)) ELSE "0" \o v.d>>
                                 ELSE IF v.n % Den # 0 /\ v.n < Den THEN NumSpellings(v) ELSE SubSeq(NumSpellings(v), 1, IF v.n % Den = 0 THEN 4 ELSE 3)
                           p == Pick(st, tp, Len(sp)) IN Out(p[2], sp[p[1] + 1])
    [] v.t = "str"  -> IF v.s = "" THEN (LET p == Pick(st, tp, 2) IN IF p[1] = 0 THEN Out(p[2], "\"\"") ELSE Kw(p[2], tp, "k_empty"))
                       ELSE Out(st, "\"" \o v.s \o "\"")

-----------------------------------------------------------------------------
(* operators *)
OpWords(op) == CASE op = "plus" -> <<"plus", "with", "+">> [] op = "minus" -> <<"minus", "without", "-">>
                 [] op = "times" -> <<"times", "of", "*">> [] op = "over" -> <<"over", "between", "/">>
                 [] op = "and" -> <<"and">> [] op = "or" -> <<"or">> [] op = "nor" -> <<"nor">>
(* comparisons: `sym` forces the symbolic family (needed for list operands and inside symbolic chains),        *)
(* `isf` forces the `is` family (equality exists only there)                                                   *)
IsWords == <<"is", "are", "was", "were">>
(* the contractions of `is`: directly after a word they may be written in any letter case, independently of the word's own *)
(* case; directly after a number or a string literal only the lower-case forms are suffixes                                 *)
LastIsLetter(st) == st.t # "" /\ LET ch == CharAt(st.t, Len(st.t)) IN
                                 ch \in { CharAt(UpperS, i) : i \in 1..26 } \cup { CharAt(LowerS, i) : i \in 1..26 } \cup {"~", "^"}
SfxForms(st) == IF LastIsLetter(st) THEN <<"'s", "'re", "'S", "'RE", "'Re", "'rE">> ELSE <<"'s", "'re">>
(* a contraction may also stand directly after a comment that follows the word (`Tommy (the man)'s 5`): the comment is ignorable *)
(* there too.  After a comment only the lower-case forms are written.                                                              *)
SfxOut(st, tp, form) ==
  LET p == Pick(st, tp, 3)
      low == IF form \in {"'s", "'S"} THEN "'s" ELSE "'re"
  IN CASE p[1] = 1 -> Out(p[2], "(c)" \o low)
       [] p[1] = 2 -> Out(p[2], " (c d)" \o low)
       [] OTHER -> Out(p[2], form)
RCompare(st, tp, noise, op, family) ==      \* renders the operator between its operands (gaps included); family \in {"is", "sym"}
  LET useIs == family = "is"
      s1 == st
  IN IF useIs THEN
       LET q == Pick(s1, tp, 4 + Len(SfxForms(s1)))           \* is are was were 's 're ('S 'RE 'Re 'rE)
           s2 == IF q[1] < 4 THEN Word(Gap(q[2], noise), tp, IsWords[q[1] + 1])
                 ELSE SfxOut(q[2], tp, SfxForms(s1)[q[1] - 3])
       IN CASE op = "eq" -> Gap(s2, noise)
            [] op = "ne" -> Gap(Kw(Gap(s2, noise), tp, "k_not"), noise)
            [] op \in {"gt", "lt"} -> Gap(Kw(Gap(Kw(Gap(s2, noise), tp, IF op = "gt" THEN "k_bigger" ELSE "k_smaller"), noise), tp, "k_than"), noise)
            [] op \in {"ge", "le"} -> Gap(Kw(Gap(Kw(Gap(Kw(Gap(s2, noise), tp, "k_as"), noise), tp, IF op = "ge" THEN "k_big" ELSE "k_small"), noise), tp, "k_as"), noise)
     ELSE CASE op = "ne" -> Gap(Kw(Gap(s1, noise), tp, "k_isnt"), noise)
            [] OTHER -> Gap(Out(Gap(s1, noise), CASE op = "gt" -> ">" [] op = "ge" -> ">=" [] op = "lt" -> "<" [] op = "le" -> "<="), noise)

ROp(st, tp, noise, op) ==
  IF op \in {"and", "or", "nor"} THEN Gap(Kw(Gap(st, noise), tp, "k_" \o op), noise)
  ELSE LET w == OpWords(op) p == Pick(st, tp, 3) IN
       IF p[1] = 2 THEN Gap(Out(Gap(p[2], noise), w[3]), noise)
       ELSE Gap(Word(Gap(p[2], noise), tp, w[p[1] + 1]), noise)

ListSep(st, tp, noise) ==      \* between the elements of an operand list: `,` or `, and`
  LET p == Pick(st, tp, 2) IN
  IF p[1] = 0 THEN Gap(Out(p[2], ","), noise) ELSE Gap(Kw(Gap(Out(p[2], ","), noise), tp, "k_and"), noise)
ArgSep(st, tp, noise) ==       \* between arguments / parameters: `,` `&` `'n'` `and` `, and`
  LET p == Pick(st, tp, 5) IN
  CASE p[1] = 0 -> Gap(Out(p[2], ","), noise)
    [] p[1] = 1 -> Gap(Out(Gap(p[2], noise), "&"), noise)
    [] p[1] = 2 -> Gap(Out(Gap(p[2], noise), "'n'"), noise)
    [] p[1] = 3 -> Gap(Kw(Gap(p[2], noise), tp, "k_and"), noise)
    [] p[1] = 4 -> Gap(Kw(Gap(Out(p[2], ","), noise), tp, "k_and"), noise)

-----------------------------------------------------------------------------
(* expressions.  cx = [tp, noise, naming, cmp] : cmp is the comparison family forced by the context *)
RECURSIVE RExpr(_, _, _)
RECURSIVE RList(_, _, _, _)
RList(st, cx, es, sep) ==      \* sep \in {"list", "arg"}
  IF Len(es) = 1 THEN RExpr(st, cx, es[1])
  ELSE LET s1 == RExpr(st, cx, es[1])
           s2 == IF sep = "list" THEN ListSep(s1, cx.tp, cx.noise) ELSE ArgSep(s1, cx.tp, cx.noise)
       IN RList(s2, cx, Tail(es), sep)
IsCmp(op) == op \in {"eq", "ne", "gt", "ge", "lt", "le"}
RECURSIVE ChainHasEq(_)
ChainHasEq(e) == e.e = "bin" /\ IsCmp(e.op) /\ (e.op = "eq" \/ ChainHasEq(e.l))
RECURSIVE ChainHasList(_)
ChainHasList(e) == e.e = "bin" /\ IsCmp(e.op) /\ (Len(e.r) > 1 \/ ChainHasList(e.l))
RExpr(st, cx, e) ==
  CASE e.e = "lit" -> RLit(st, cx.tp, e.v)
    [] e.e = "var" -> Name(st, cx.tp, cx.naming, e.n)
    [] e.e = "pro" -> Kw(st, cx.tp, "k_pronoun")
    [] e.e = "idx" -> RExpr(Gap(Kw(Gap(RExpr(st, cx, e.a), cx.noise), cx.tp, "k_at"), cx.noise), cx, e.k)
    [] e.e = "call" -> RList(Gap(Kw(Gap(Name(st, cx.tp, cx.naming, e.f), cx.noise), cx.tp, "k_taking"), cx.noise), cx, e.args, "arg")
    [] e.e = "roll" -> RExpr(Gap(Kw(st, cx.tp, "k_roll"), cx.noise), cx, e.a)
    [] e.e = "un" -> IF e.op = "not" THEN RExpr(Gap(Kw(st, cx.tp, "k_not"), cx.noise), cx, e.x)
                     ELSE RExpr(Out(st, "-"), cx, e.x)
    [] e.e = "bin" ->
         IF IsCmp(e.op) THEN
           \* a chain of comparisons (a comparison whose left operand is a comparison ...) is spelled in ONE family:
           \* the `is` family when it contains an equality, the symbolic family when a link has a list operand,
           \* otherwise either (a choice made once, at the top of the chain)
           LET top == cx.cmp = "any"
               p == IF top /\ ~ChainHasEq(e) /\ ~ChainHasList(e) THEN Pick(st, cx.tp, 2) ELSE <<0, st>>
               fam == IF ~top THEN cx.cmp ELSE IF ChainHasEq(e) THEN "is" ELSE IF ChainHasList(e) THEN "sym"
                      ELSE IF p[1] = 0 THEN "is" ELSE "sym"
               s1 == RExpr(p[2], IF e.l.e = "bin" /\ IsCmp(e.l.op) THEN [cx EXCEPT !.cmp = fam] ELSE [cx EXCEPT !.cmp = "any"], e.l)
               s2 == RCompare(s1, cx.tp, cx.noise, e.op, fam)
           IN RList(s2, [cx EXCEPT !.cmp = "any"], e.r, "list")
         ELSE RList(ROp(RExpr(st, cx, e.l), cx.tp, cx.noise, e.op), cx, e.r, "list")

-----------------------------------------------------------------------------
(* Which trees does the grammar express?  Rockstar has no parentheses, so a tree is expressible only if printing it     *)
(* in-order reads back as the same tree:                                                                                *)
(*  - precedence levels: and/or/nor 1 < comparisons 2 < + - 3 < * / 4 < unary 5 < primary 6; the left operand of an     *)
(*    operator has at least its level (left-associative), every right operand a higher level; a unary operand is at     *)
(*    least unary;                                                                                                      *)
(*  - a comma belongs to the innermost construct that can take it: an operand list with more than one element needs a   *)
(*    first element that neither ends in a binary operator's operand nor in a call, later elements but the last must    *)
(*    not end in a call, and no element contains a list of its own;                                                     *)
(*  - arguments are unary expressions; an array is subscripted by a non-subscript primary; `roll x at i` rolls `x at i`.*)
OpLevel(op) == CASE op \in {"and", "or", "nor"} -> 1 [] IsCmp(op) -> 2 [] op \in {"plus", "minus"} -> 3 [] op \in {"times", "over"} -> 4
ELevel(e) == CASE e.e = "bin" -> OpLevel(e.op) [] e.e = "un" -> 5 [] OTHER -> 6
RECURSIVE EndsInCall(_)
EndsInCall(e) == CASE e.e = "call" -> TRUE [] e.e = "bin" -> EndsInCall(e.r[Len(e.r)]) [] e.e = "un" -> EndsInCall(e.x)
                   [] e.e = "idx" -> EndsInCall(e.k) [] e.e = "roll" -> EndsInCall(e.a) [] OTHER -> FALSE
RECURSIVE EndsInBinary(_)
EndsInBinary(e) == e.e = "bin" \/ (e.e = "un" /\ EndsInBinary(e.x))
RECURSIVE HasList(_)
HasList(e) == CASE e.e = "bin" -> Len(e.r) > 1 \/ HasList(e.l) \/ \E i \in 1..Len(e.r) : HasList(e.r[i])
                [] e.e = "un" -> HasList(e.x) [] OTHER -> FALSE
ListOK(es) ==       \* the elements of one comma-separated operand list
  Len(es) > 1 => /\ ~EndsInBinary(es[1]) /\ \A i \in 1..(Len(es) - 1) : ~EndsInCall(es[i])
                 /\ \A i \in 1..Len(es) : ~HasList(es[i])
RECURSIVE Expressible(_)
Expressible(e) ==
  CASE e.e = "bin" ->
         /\ ELevel(e.l) >= OpLevel(e.op) /\ Expressible(e.l)
         /\ \A i \in 1..Len(e.r) : ELevel(e.r[i]) > OpLevel(e.op) /\ Expressible(e.r[i])
         /\ ListOK(e.r)
         /\ (IsCmp(e.op) /\ e.l.e = "bin" /\ IsCmp(e.l.op) => ~(ChainHasEq(e) /\ ChainHasList(e)))
         /\ (e.op = "eq" => Len(e.r) = 1)
    [] e.e = "un" -> ELevel(e.x) >= 5 /\ Expressible(e.x)
    [] e.e = "idx" -> e.a.e \in {"var", "pro", "lit", "idx"} /\ Expressible(e.a) /\ e.k.e \in {"var", "pro", "lit", "call", "roll"} /\ Expressible(e.k)
    [] e.e = "call" -> /\ \A i \in 1..Len(e.args) : ELevel(e.args[i]) >= 5 /\ Expressible(e.args[i])
                       /\ \A i \in 1..(Len(e.args) - 1) : ~EndsInCall(e.args[i])
    [] e.e = "roll" -> e.a.e \in {"var", "pro", "lit", "idx", "call", "roll"} /\ Expressible(e.a)
    [] OTHER -> TRUE

(* statements and programs that some text denotes *)
LitOK(v) == CASE v.t = "num" -> (v.c = "fin" /\ v.n >= 0) \/ (v.c \in {"big", "tiny", "dec"} /\ v.s > 0)
              [] v.t = "str" -> \A i \in 1..Len(v.s) : CharAt(v.s, i) # "\""            \* a line break inside a string literal is written as it is
              [] OTHER -> TRUE
RECURSIVE LitsOK(_)
LitsOK(e) == CASE e.e = "lit" -> LitOK(e.v)
               [] e.e = "idx" -> LitsOK(e.a) /\ LitsOK(e.k)
               [] e.e = "call" -> e.args # <<>> /\ \A i \in 1..Len(e.args) : LitsOK(e.args[i])
               [] e.e = "roll" -> LitsOK(e.a)
               [] e.e = "un" -> LitsOK(e.x)
               [] e.e = "bin" -> LitsOK(e.l) /\ \A i \in 1..Len(e.r) : LitsOK(e.r[i])
               [] OTHER -> TRUE
ExprOK(e) == Expressible(e) /\ LitsOK(e)
PrimaryShaped(e) == e.e \in {"lit", "var", "pro", "idx", "call", "roll"}
LhsOK(d) == d.e \in {"var", "pro"} \/ (d.e = "idx" /\ ExprOK(d))
RECURSIVE LeftmostIsLiteral(_)
LeftmostIsLiteral(e) == CASE e.e = "lit" -> TRUE [] e.e = "bin" -> LeftmostIsLiteral(e.l) [] e.e = "idx" -> LeftmostIsLiteral(e.a)
                          [] e.e = "un" -> e.op = "neg" /\ e.x.e = "lit" /\ e.x.v.t = "num" [] OTHER -> FALSE
TopListOK(es) == es # <<>> /\ ListOK(es) /\ \A i \in 1..Len(es) : ExprOK(es[i])
RECURSIVE StmtOK(_)
RECURSIVE BlockOK(_)
BlockOK(ss) == \A i \in 1..Len(ss) : StmtOK(ss[i])
(* `let x be -5` is the compound subtraction `x -= 5`: a plain assignment whose value starts with a unary minus can only be *)
(* written with `put`, and not at all with a list of values                                                                 *)
RECURSIVE StartsWithNeg(_)
StartsWithNeg(e) == CASE e.e = "un" -> e.op = "neg" [] e.e = "bin" -> StartsWithNeg(e.l) [] e.e = "idx" -> StartsWithNeg(e.a) [] OTHER -> FALSE
StmtOK(s) ==
  CASE s.s = "assign" -> LhsOK(s.dest) /\ TopListOK(s.vals) /\ (s.op = "none" /\ Len(s.vals) > 1 => ~StartsWithNeg(s.vals[1]))
    [] s.s = "pnum" -> LhsOK(s.dest) /\ (s.e.e = "plit" \/ (ExprOK(s.e) /\ LeftmostIsLiteral(s.e)))
    [] s.s = "pstr" -> LhsOK(s.dest) /\ \A i \in 1..Len(s.str) : CharAt(s.str, i) \notin {"\"", "(", NL}
    [] s.s = "if" -> ExprOK(s.c) /\ BlockOK(s.th) /\ BlockOK(s.el)
    [] s.s \in {"while", "until"} -> ExprOK(s.c) /\ BlockOK(s.body)
    [] s.s \in {"inc", "dec"} -> s.dest.e \in {"var", "pro"} /\ s.n >= 1
    [] s.s = "listen" -> s.dest.e = "none" \/ LhsOK(s.dest)
    [] s.s \in {"say", "return"} -> ExprOK(s.e)
    [] s.s = "mut" -> /\ PrimaryShaped(s.operand) /\ ExprOK(s.operand) /\ (s.dest.e = "none" => s.operand.e \in {"var", "pro"})
                      /\ (s.dest.e = "none" \/ LhsOK(s.dest)) /\ (s.param.e = "none" \/ ExprOK(s.param))
    [] s.s = "turn" -> ExprOK(s.e)
    [] s.s \in {"break", "continue"} -> TRUE
    [] s.s = "rock" -> PrimaryShaped(s.a) /\ ExprOK(s.a) /\ (s.vals = <<>> \/ (Len(s.vals) = 1 /\ s.vals[1].e = "plit") \/ TopListOK(s.vals))
    [] s.s = "rollst" -> PrimaryShaped(s.a) /\ ExprOK(s.a) /\ (s.dest.e = "none" \/ LhsOK(s.dest))
    [] s.s = "func" -> /\ s.ps # <<>> /\ BlockOK(s.body)
                       /\ \A i \in 1..(Len(s.body) - 1) : ~(s.body[i].s = "if" /\ s.body[i].hasElse)     \* an if/else ends a function body
    [] s.s = "callst" -> ExprOK([e |-> "call", f |-> s.f, args |-> s.args])
ProgramOK(bs) == \A i \in 1..Len(bs) : bs[i] # <<>> /\ BlockOK(bs[i])

-----------------------------------------------------------------------------
(* poetic literals *)
(* between the words of a poetic number literal a comma is ignorable punctuation, whatever word follows it (also `and`) *)
WordSeps == <<" ", ", ", " , ", ",">>
RECURSIVE RElems(_, _, _, _)
RElems(st, tp, es, first) ==
  IF es = <<>> THEN st
  ELSE LET h == Head(es) IN
       RElems(CASE h.k = "w" -> (IF first THEN Out(st, h.s) ELSE LET p == Pick(st, tp, Len(WordSeps)) IN Out(p[2], WordSeps[p[1] + 1] \o h.s))
                [] h.k = "s" -> Out(st, h.s)
                [] h.k = "d" -> Out(st, IF first THEN "." ELSE " ."), tp, Tail(es), FALSE)

-----------------------------------------------------------------------------
(* statements.  Each statement is one line (compound statements: a header line, the blocks, a closing blank *)
(* line); the noise style and the line-end decoration are chosen per statement                              *)
(* decoration of a line end.  A comma can only follow a statement that cannot take it as a list / argument / parameter   *)
(* separator; a period directly after a word, a blank-separated period anywhere except after a poetic number literal    *)
(* (where it would be part of the literal)                                                                              *)
EolStyles == <<"", ",", " .", " ", "\r", ";", ".", " ,", " (a" \o NL \o NL \o "b" \o NL \o ")",   \* index 8: a closing comment over three line breaks
               "\r ", "\r\r">>       \* a carriage return is a blank wherever it stands: CR blank LF and CR CR LF end ONE line
RECURSIVE NoListTail(_)
NoListTail(e) == \/ e.e \in {"lit", "var", "pro"}
                 \/ (e.e = "idx" /\ NoListTail(e.k)) \/ (e.e = "roll" /\ NoListTail(e.a)) \/ (e.e = "un" /\ NoListTail(e.x))
CommaOK(s) ==
  CASE s.s = "assign" -> s.op = "none" /\ Len(s.vals) = 1 /\ s.dest.e \in {"var", "pro", "idx"} /\ FALSE
    [] s.s = "pnum" -> s.e.e = "plit" \/ NoListTail(s.e)
    [] s.s \in {"if", "while", "until", "say", "return"} -> NoListTail(IF s.s \in {"say", "return"} THEN s.e ELSE s.c)
    [] s.s \in {"inc", "dec", "break", "continue"} -> TRUE
    [] s.s = "listen" -> s.dest.e = "none" \/ NoListTail(s.dest)
    [] s.s = "mut" -> IF s.param.e # "none" THEN NoListTail(s.param) ELSE IF s.dest.e # "none" THEN NoListTail(s.dest) ELSE NoListTail(s.operand)
    [] s.s = "turn" -> NoListTail(s.e)
    [] s.s = "rock" -> s.vals = <<>> /\ NoListTail(s.a)
    [] s.s = "rollst" -> IF s.dest.e # "none" THEN NoListTail(s.dest) ELSE NoListTail(s.a)
    [] OTHER -> FALSE
PoeticTail(s) == (s.s = "pnum" /\ s.e.e = "plit") \/ (s.s = "rock" /\ s.vals # <<>> /\ s.vals[1].e = "plit")
IsLetterChar(ch) == ch \in {"a","b","c","d","e","f","g","h","i","j","k","l","m","n","o","p","q","r","s","t","u","v","w","x","y","z",
                            "A","B","C","D","E","F","G","H","I","J","K","L","M","N","O","P","Q","R","S","T","U","V","W","X","Y","Z","~","^"}
EolChoice(st, s, k) ==      \* the style actually used for choice k
  CASE k \in {1, 7} -> IF CommaOK(s) THEN k ELSE 0
    [] k = 2 -> IF PoeticTail(s) THEN 0 ELSE k
    [] k = 6 -> IF ~PoeticTail(s) /\ st.t # "" /\ IsLetterChar(CharAt(st.t, Len(st.t))) THEN k ELSE 0
    [] k = 8 -> IF PoeticTail(s) THEN 0 ELSE k
    [] OTHER -> k
EolK(st, s, k) == Out(st, EolStyles[EolChoice(st, s, k) + 1] \o NL)
Blank(st) == Out(st, NL)

RLhs(st, cx, d) == RExpr(st, cx, d)

RECURSIVE RStmt(_, _, _, _)
RECURSIVE RBlock(_, _, _, _)
(* a block: its statements, or one blank line when it is empty *)
RBlock(st, tp, naming, ss) ==
  IF ss = <<>> THEN Blank(st)
  ELSE LET RECURSIVE B(_, _)
           B(s, i) == IF i > Len(ss) THEN s ELSE B(RStmt(s, tp, naming, ss[i]), i + 1)
       IN B(st, 1)
(* does the body's last statement already close the function (an if with an else branch)? *)
ClosesFunction(body) == body # <<>> /\ body[Len(body)].s = "if" /\ body[Len(body)].hasElse

RStmt(st0, tp, naming, s) ==
  LET p1 == Pick(st0, tp, Len(NoiseStyles))
      p2 == Pick(p1[2], tp, Len(EolStyles))
      noise == p1[1]
      eol == p2[1]
      st == [p2[2] EXCEPT !.lines = Append(p2[2].lines, p2[2].ln)]
      cx == [tp |-> tp, noise |-> noise, naming |-> naming, cmp |-> "any"]
      G(x) == Gap(x, noise)
      K(x, kind) == Kw(x, tp, kind)
      E(x, e) == RExpr(x, cx, e)
  IN
  CASE s.s = "assign" ->
         IF s.op = "none" /\ Len(s.vals) = 1 THEN
           LET p == Pick(st, tp, 2) IN
           IF p[1] = 0 \/ StartsWithNeg(s.vals[1]) THEN EolK(RLhs(G(K(G(E(G(K(p[2], "k_put")), s.vals[1])), "k_into")), cx, s.dest), s, eol)
           ELSE EolK(E(G(K(G(RLhs(G(K(p[2], "k_let")), cx, s.dest)), "k_be")), s.vals[1]), s, eol)
         ELSE LET h == G(K(G(RLhs(G(K(st, "k_let")), cx, s.dest)), "k_be"))
                  h2 == IF s.op = "none" THEN h
                        ELSE LET w == OpWords(s.op) p == Pick(h, tp, 3) IN
                             IF p[1] = 2 THEN G(Out(p[2], w[3])) ELSE G(Word(p[2], tp, w[p[1] + 1]))
              IN EolK(RList(h2, cx, s.vals, "list"), s, eol)
    [] s.s = "pnum" ->
         LET l == RLhs(st, cx, s.dest)
             q == Pick(l, tp, 4 + Len(SfxForms(l)))
             h == IF q[1] < 4 THEN G(Word(G(q[2]), tp, IsWords[q[1] + 1])) ELSE G(SfxOut(q[2], tp, SfxForms(l)[q[1] - 3]))
         IN IF s.e.e = "plit" THEN EolK(RElems(h, tp, s.e.elems, TRUE), s, eol) ELSE EolK(E(h, s.e), s, eol)
    [] s.s = "pstr" -> Out(Out(K(G(RLhs(st, cx, s.dest)), "k_says"), " " \o s.str), NL)      \* the text is taken verbatim: no decoration
    [] s.s = "if" ->
         LET h == EolK(E(G(K(st, "k_if")), s.c), s, eol)
             t == RBlock(h, tp, naming, s.th)
         IN IF s.hasElse THEN Blank(RBlock(Out(K(t, "k_else"), NL), tp, naming, s.el)) ELSE Blank(t)
    [] s.s \in {"while", "until"} -> Blank(RBlock(EolK(E(G(K(st, "k_" \o s.s)), s.c), s, eol), tp, naming, s.body))
    [] s.s \in {"inc", "dec"} ->
         LET kw == IF s.s = "inc" THEN "k_build" ELSE "k_knock" ud == IF s.s = "inc" THEN "k_up" ELSE "k_down"
             h == K(G(RExpr(G(K(st, kw)), cx, s.dest)), ud)
             RECURSIVE More(_, _)
             More(x, n) == IF n = 0 THEN x
                           ELSE LET p == Pick(x, tp, 2) IN More(K(IF p[1] = 0 THEN G(p[2]) ELSE G(Out(p[2], ",")), ud), n - 1)
         IN EolK(More(h, s.n - 1), s, eol)
    [] s.s = "listen" ->
         IF s.dest.e = "none" THEN EolK(K(st, "k_listen"), s, eol)
         ELSE EolK(RLhs(G(K(G(K(st, "k_listen")), "k_to")), cx, s.dest), s, eol)
    [] s.s = "say" -> LET p == Pick(st, tp, 2) IN EolK(E(G(K(p[2], IF p[1] = 0 THEN "k_say" ELSE "k_sayalias")), s.e), s, eol)
    [] s.s = "mut" ->
         LET h == E(G(K(st, "k_" \o s.op)), s.operand)
             h2 == IF s.dest.e = "none" THEN h ELSE RLhs(G(K(G(h), "k_into")), cx, s.dest)
             h3 == IF s.param.e = "none" THEN h2 ELSE E(G(K(G(h2), "k_with")), s.param)
         IN EolK(h3, s, eol)
    [] s.s = "turn" ->
         LET dir == CASE s.dir = "up" -> "k_up" [] s.dir = "down" -> "k_down" [] OTHER -> "k_round"
             p == Pick(st, tp, 2)
         IN IF p[1] = 0 THEN EolK(E(G(K(G(K(p[2], "k_turn")), dir)), s.e), s, eol)
            ELSE EolK(K(G(E(G(K(p[2], "k_turn")), s.e)), dir), s, eol)
    [] s.s = "break" ->
         LET p == Pick(st, tp, 2) IN
         IF p[1] = 0 THEN EolK(K(p[2], "k_break"), s, eol)
         ELSE EolK(K(G(Word(G(K(p[2], "k_break")), tp, "it")), "k_down"), s, eol)
    [] s.s = "continue" ->
         LET p == Pick(st, tp, 2) IN
         IF p[1] = 0 THEN EolK(K(p[2], "k_continue"), s, eol)
         ELSE EolK(K(G(Word(G(K(G(Word(G(K(p[2], "k_take")), tp, "it")), "k_to")), tp, "the")), "k_top"), s, eol)
    [] s.s = "rock" ->
         LET h == E(G(K(st, "k_rock")), s.a) IN
         IF s.vals = <<>> THEN EolK(h, s, eol)
         ELSE IF s.vals[1].e = "plit" THEN EolK(RElems(G(K(G(h), "k_like")), tp, s.vals[1].elems, TRUE), s, eol)
         ELSE EolK(RList(G(K(G(h), "k_with")), cx, s.vals, "list"), s, eol)
    [] s.s = "rollst" ->
         LET h == E(G(K(st, "k_roll")), s.a) IN
         IF s.dest.e = "none" THEN EolK(h, s, eol) ELSE EolK(RLhs(G(K(G(h), "k_into")), cx, s.dest), s, eol)
    [] s.s = "return" ->
         LET p == Pick(st, tp, 4) IN
         (CASE p[1] = 0 -> EolK(E(G(K(G(Word(p[2], tp, "give")), "k_back")), s.e), s, eol)
            [] p[1] = 1 -> EolK(K(G(E(G(Word(p[2], tp, "give")), s.e)), "k_back"), s, eol)
            [] p[1] = 2 -> EolK(E(G(Word(p[2], tp, "return")), s.e), s, eol)
            [] p[1] = 3 -> EolK(K(G(E(G(Word(p[2], tp, "send")), s.e)), "k_back"), s, eol))
    [] s.s = "func" ->
         LET RECURSIVE Ps(_, _)
             Ps(x, i) == IF i > Len(s.ps) THEN x
                         ELSE Ps(Name(IF i = 1 THEN x ELSE ArgSep(x, tp, noise), tp, naming, s.ps[i]), i + 1)
             h == EolK(Ps(G(K(G(Name(st, tp, naming, s.name)), "k_takes")), 1), s, eol)
             b == RBlock(h, tp, naming, s.body)
         IN IF ClosesFunction(s.body) THEN b ELSE Blank(b)
    [] s.s = "callst" -> EolK(RList(G(K(G(Name(st, tp, naming, s.f)), "k_taking")), cx, s.args, "arg"), s, eol)

(* a program: top-level blocks separated by a blank line *)
RProgram(tp, naming, bs) ==
  LET RECURSIVE P(_, _)
      P(st, i) == IF i > Len(bs) THEN st
                  ELSE P(RBlock(IF i = 1 THEN st ELSE Blank(st), tp, naming, bs[i]), i + 1)
  IN P(St0, 1)

(* trailing blank lines (and the final line end) may be dropped: the end of the text closes every block *)
RECURSIVE StripTrailingNl(_)
StripTrailingNl(t) == IF t # "" /\ CharAt(t, Len(t)) = NL THEN StripTrailingNl(SubSeq(t, 1, Len(t) - 1)) ELSE t

Render(tp, naming, bs) ==      \* [text, alts, lines]; the LAST tape element chooses whether trailing line ends are kept
  LET r == RProgram(tp, naming, bs) IN
  [text |-> r.t, alts |-> r.alts, lines |-> r.lines, used |-> r.k - 1]
=============================================================================
