CONSTANTS
  MaxSteps = 100
  Family = "fault"
  Tier = "quick"
INIT Init
NEXT Next
INVARIANT Emit
CHECK_DEADLOCK FALSE
