CONSTANTS
  SuffixUsesStaleLine = FALSE
  PropertyOnly = FALSE
SPECIFICATION Spec
POSTCONDITION Accepted
CHECK_DEADLOCK FALSE
