CONSTANTS
  SuffixUsesStaleLine = FALSE
  Alphabet <- SoupStmt
  MaxLen = 5
INIT Init
NEXT Next
INVARIANT ParserTotal
INVARIANT Emit
CHECK_DEADLOCK FALSE
