CONSTANTS
  MaxSteps = 3000
  Family = "cf"
  Tier = "quick"
INIT Init
NEXT Next
INVARIANT Emit
CHECK_DEADLOCK FALSE
