------------------------------ MODULE MC_Table ------------------------------
(***************************************************************************)
(* Bounded instance of the value algebra: every operator applied to every  *)
(* ordered pair (triple) of a value universe that covers each kind and     *)
(* each boundary the coercions inspect.  TLC checks the laws of Laws.tla   *)
(* on the model's own tables and prints one replay line per case; the      *)
(* harness executes the same case on the real Val API and through a real   *)
(* program and compares.                                                   *)
(***************************************************************************)
EXTENDS Laws, Json, SequencesExt

CONSTANT Tier,           \* "quick" | "thorough"
         Kinds           \* which case kinds this run enumerates

VARIABLE c               \* the case under evaluation

A1   == Arr(<<IntV(1)>>, <<>>)
A12  == Arr(<<IntV(1), IntV(2)>>, <<>>)
A21  == Arr(<<IntV(2), IntV(1)>>, <<>>)
AA1  == Arr(<<A1>>, <<>>)
AD   == Arr(<<IntV(1)>>, <<[k |-> [k |-> "str", s |-> "k"], v |-> IntV(2)]>>)
AN   == Arr(<<NaN>>, <<>>)
ADO  == Arr(<<>>, <<[k |-> [k |-> "str", s |-> "k"], v |-> IntV(2)]>>)      \* entries under non-numeric keys only: its sequence is empty
AMY  == Arr(<<Myst, Myst>>, <<>>)                                           \* two elements, both mysterious
AS   == Arr(<<Str("a"), Str("b")>>, <<>>)
ASD  == Arr(<<Str("a")>>, <<[k |-> [k |-> "null"], v |-> Str("n")], [k |-> [k |-> "bool", b |-> FALSE], v |-> Str("f")],
                            [k |-> [k |-> "bool", b |-> TRUE], v |-> Str("t")], [k |-> [k |-> "str", s |-> "b"], v |-> Str("y")],
                            [k |-> [k |-> "str", s |-> "a"], v |-> Str("x")]>>)   \* deliberately unsorted: normalised below

RECURSIVE Norm(_)
RECURSIVE PutAll(_, _)
PutAll(d, es) == IF es = <<>> THEN d ELSE PutAll(DictPut(d, Head(es).k, Norm(Head(es).v)), Tail(es))
Norm(v) == IF v.t # "arr" THEN v ELSE Arr([i \in 1..Len(v.a) |-> Norm(v.a[i])], PutAll(<<>>, v.d))

UScalar == { Myst, Null, Bool(TRUE), Bool(FALSE),
             IntV(0), NZero, IntV(1), IntV(-1), IntV(2), Fin(32), Fin(-96), Fin(160),
             Huge, NHuge, NaN, PInf, NInf, Tiny(1, TinyText), Tiny(-1, TinyText),
             Dec(1, "0.26"), Dec(-1, "123.45"), Dec(1, "0.3"), Str("0.26"), Rat(1, 5, 3), Rat(-1, 1, 3), Rat(1, 1, 5),
             Str(""), Str("a"), Str("b"), Str("ab"), Str("0"), Str("1"), Str(" 1"), Str("1.5"), Str("-0"),
             Str("nan"), Str("inf"), Str("true"), Str("2") }
UArr    == { EmptyArr, A1, A12, A21, AA1, AD, AN, AS, ADO, AMY }
UMore   == { Big(1, "2147483648"), Big(1, "4294967361"), Big(-1, "4294967230"), Big(1, "9007199254740992"),
             IntV(65), IntV(233), IntV(1114111), IntV(1114112), IntV(55296), Fin(4192),
             Str("1e1"), Str("Infinity"), Str("+1"), Str("1."), Str(".5"), Str("0.1"), Str("a,b"), Str("~a"),
             Tiny(1, "0.001"), Str("0.0000000000000001"), Str("-0.001") }
U       == UScalar \cup UArr
UBig    == U \cup (IF Tier = "thorough" THEN UMore ELSE {})

U6      == { Myst, Bool(TRUE), Bool(FALSE), IntV(0), IntV(2), Str("a"), Null, A1 }   \* for list operands
UK      == { Tiny(1, TinyText), Myst, Null, Bool(TRUE), Bool(FALSE), IntV(0), IntV(1), IntV(2), IntV(3), NZero, Fin(32), IntV(-1),
             NaN, PInf, Huge, Str("k"), Str(""), Str("0"), A1 }                       \* keys
UV      == { Myst, Null, Bool(TRUE), IntV(5), Str(""), Str("ab"), Str("~b~"), EmptyArr, A1, A12, AA1, AD, Norm(ASD) }
UX      == { Myst, IntV(7), Str("z"), A1 }                                            \* stored values
UStr    == { "", "a", "ab", "a,b", ",a,", "a,,b", ",,", "aXaXa", "~,~", "aaa", "b" }
           \cup (IF Tier = "thorough" THEN { "aaaa", ",", " ", "a b c", "~~", "a~b", ",,,", "aXa", "XaX", "abab", "aa,aa", "1,2,3", "\n", "a\nb" } ELSE {})
UDelim  == { NoParam, Str(""), Str(","), Str(",,"), Str("a"), Str("aa"), Str("X"), IntV(1), Myst, Null, Bool(TRUE), A1 }
           \cup (IF Tier = "thorough" THEN { Str("~"), Str("ab"), Str(" "), Str("aXa"), Str("\n"), Str("b"), Bool(FALSE), EmptyArr, NaN } ELSE {})
UJoin   == { EmptyArr, AS, Norm(ASD), A1, Arr(<<Str("a"), IntV(1)>>, <<>>), Arr(<<Str("")>>, <<>>),
             Arr(<<Str("a"), Str(""), Str("b")>>, <<>>), Arr(<<Str("x"), Str("-")>>, <<>>), Arr(<<Str("a,b"), Str("")>>, <<>>),
             Arr(<<Str("a")>>, <<[k |-> [k |-> "str", s |-> "k"], v |-> IntV(1)]>>), Str("a"), Myst, IntV(1),
             \* only non-numeric keys: not an empty array
             Arr(<<>>, <<[k |-> [k |-> "str", s |-> "k"], v |-> Str("v")]>>), Arr(<<>>, <<[k |-> [k |-> "str", s |-> "k"], v |-> IntV(1)]>>),
             Arr(<<>>, <<[k |-> [k |-> "null"], v |-> Str("n")], [k |-> [k |-> "str", s |-> "k"], v |-> Str("v")]>>) }
UJDelim == { NoParam, Str(""), Str(","), Str("-"), IntV(1), Myst, A1 }
UCastN  == { Dec(1, "65.5"), Tiny(1, TinyText), Tiny(-1, TinyText), IntV(65), IntV(97), IntV(233), IntV(9), IntV(10), IntV(32), IntV(34), IntV(66), IntV(92), IntV(126), IntV(127), IntV(0), NZero, IntV(-1), Fin(4192), IntV(1114111), IntV(1114112),
             IntV(55295), IntV(55296), IntV(57343), IntV(57344), NaN, PInf, NInf, Huge, NHuge,
             Big(1, "2147483648"), Big(1, "4294967361"), Big(-1, "4294967230"), Big(1, "4294967296"),
             Big(1, "9223372036854776000") }
UCastS  == { "0.26", "-123.45", "3.140", "00.3", "0.123456789012345", "0.1234567890123456", "", "0", "1", "11", "-11", "+11", "ff", "FF", "zz", "1.5", "-0", "12a", " 1", "1 ", "nan", "inf", "-inf",
             "Infinity", "1e1", ".5", "5.", ".", "-", "+", "0.1", "1_0", "~", "99999999999", "123456789012345678901",
             "0.0000000000000001", "-0.001", "0.00100", ".001",
             \* unparsable and long: the message that names it must still be renderable
             "x~~~~~~~~~~~~~~~~~~~~~~~~~~~~~~", "abcdefghijklmnopqrstuvwxyzabcdefghijklmnopqrstuvwxyz", "~~~~~~~~~~~~~~~~~" }
           \cup (IF Tier = "thorough" THEN { "10", "101", "z", "Z", "g", "-ff", "+-1", "--1", "1e2", "1e-1", "2.5e1", "1e", "e1", "0x10", "1,0", "NaN", "INF",
                                              "infinit", "+inf", "-nan", "0.5", "0.25", "0.125", "1.0", "-1.5", "007", "1 1", "2", "7", "9", "a", "A" } ELSE {})
URadix  == { NoParam, IntV(2), IntV(10), IntV(16), IntV(36), IntV(37), IntV(1), IntV(0), IntV(-1), NZero, Fin(160),
             NaN, PInf, Huge, Big(1, "4294967298"), Str("10"), Myst, Null, Bool(TRUE), A1, Tiny(1, TinyText) }
           \cup (IF Tier = "thorough" THEN { IntV(3), IntV(8), IntV(11), IntV(35), IntV(38), IntV(100), NInf, Fin(128 + 1), Big(-1, "4294967294"), Bool(FALSE), EmptyArr, Str("") } ELSE {})
UTurnMore == { Fin(n) : n \in {2, -2, 31, -31, 33, -33, 64 * 7 + 32, -(64 * 7 + 32), 64 * 1000 + 1, 64 * 16777215, -64 * 16777215 + 63} }
UTurn   == (IF Tier = "thorough" THEN UTurnMore ELSE {}) \cup { Rat(1, 8, 3), Rat(-1, 8, 3), Rat(1, 1, 3), Rat(-1, 2, 3), Rat(1, 7, 3), Rat(1, 32767, 32766), Rat(-1, 1, 32767), Dec(1, "2.6"), Dec(-1, "2.6"), Dec(1, "0.26"), Dec(-1, "0.26"), Dec(1, "2.4"), Dec(-1, "7.5000001"), Dec(1, "16777215.9"),
             IntV(0), NZero, IntV(1), IntV(-1), Fin(32), Fin(-32), Fin(96), Fin(-96), Fin(160), Fin(-160), Fin(16), Fin(-16),
             Fin(48), Fin(-48), Fin(1), Fin(-1), Fin(63), Fin(-63), NaN, PInf, NInf, Huge, NHuge,
             Tiny(1, TinyText), Tiny(-1, TinyText), Tiny(1, "0.009"), Tiny(-1, "0.009"),
             Myst, Null, Bool(TRUE), Str("1"), A1 }

NS == 16                 \* shards: Init picks (kind, shard), Next expands it, so that all workers enumerate
Sh(S, n) == LET q == SetToSeq(S) IN { q[i] : i \in { j \in 1..Len(q) : j % NS = n } }

CasesOf(kind, n) ==
  CASE kind = "bin"      -> [k : {"bin"}, op : BinOps, a : Sh(UBig, n), b : UBig]
    [] kind = "abin"     -> [k : {"bin"}, op : BinOps, a : Sh(UArr, n), b : UBig] \cup [k : {"bin"}, op : BinOps, a : Sh(UBig, n), b : UArr]   \* an array on either side
    [] kind = "fold"     -> [k : {"fold"}, op : Sh(BinOps, n), a : U6, b1 : U6, b2 : U6]
    [] kind = "compound" -> [k : {"compound"}, op : Sh(ArithOps, n), a : U6, b1 : U6, b2 : U6]
    [] kind = "un"       -> [k : {"un"}, op : {"neg", "not"}, a : Sh(UBig, n)]
    [] kind = "inc"      -> [k : {"inc"}, a : Sh(UBig, n), n : {1, 2, 3, -1, -2, -3}]
    [] kind = "say"      -> [k : {"say"}, a : Sh(UBig \cup UV \cup UTurn, n)]
    [] kind = "index"    -> [k : {"index"}, v : Sh(UV, n), key : UK]
    [] kind = "store"    -> [k : {"store"}, v : Sh(UV, n), key : UK, x : UX]
    [] kind = "rock"     -> [k : {"rock"}, v : Sh(UV, n), xs : {<<>>, <<IntV(7)>>, <<Str("z"), A1>>, <<Myst, Null>>}]
    [] kind = "roll"     -> [k : {"roll"}, v : Sh(UV, n)]
    [] kind = "cut"      -> [k : {"cut"}, v : Sh({Str(z) : z \in UStr} \cup {Myst, Null, IntV(1), A1}, n), p : UDelim]
    [] kind = "join"     -> [k : {"join"}, v : Sh(UJoin, n), p : UJDelim]
    [] kind = "cast"     -> [k : {"cast"}, v : Sh(UCastN \cup {Str(z) : z \in UCastS} \cup {Myst, Null, Bool(TRUE), A1}, n), p : URadix]
    [] kind = "turn"     -> [k : {"turn"}, v : Sh(UTurn, n), dir : {"up", "down", "nearest"}]
    [] kind = "laws"     -> [k : {"laws"}, a : Sh(U, n), b : U]

Result(x) ==
  CASE x.k = "bin"      -> BinOp(x.op, x.a, x.b)
    [] x.k = "fold"     -> FoldOp(x.op, x.a, <<x.b1, x.b2>>)
    [] x.k = "compound" -> FoldOp(x.op, x.a, <<x.b1, x.b2>>)
    [] x.k = "un"       -> IF x.op = "neg" THEN Negate(x.a) ELSE Not(x.a)
    [] x.k = "inc"      -> Inc(x.a, x.n)
    [] x.k = "say"      -> [t |-> "say", out |-> ToOutStr(x.a), det |-> OutDetermined(x.a), truthy |-> Truthy(x.a)]
    [] x.k = "index"    -> Index(x.v, x.key)
    [] x.k = "store"    -> LET g == SlotGet(x.v, x.key) IN IF IsVal(g) THEN SlotPut(x.v, x.key, x.x) ELSE g
    [] x.k = "rock"     -> Push(x.v, x.xs)
    [] x.k = "roll"     -> LET p == PopVal(x.v) IN IF IsErr(p) THEN p ELSE [t |-> "roll", val |-> p, rest |-> PopRest(x.v)]
    [] x.k = "cut"      -> Cut(x.v, x.p)
    [] x.k = "join"     -> Join(x.v, x.p)
    [] x.k = "cast"     -> Cast(x.v, x.p)
    [] x.k = "turn"     -> Turn(x.v, x.dir)
    [] x.k = "laws"     -> [t |-> "laws"]
    [] x.k = "init"     -> [t |-> "laws"]

Init == c \in [k : {"init"}, kind : Kinds, n : 0..(NS - 1)]
Next == c.k = "init" /\ c' \in CasesOf(c.kind, c.n)

-----------------------------------------------------------------------------
(* invariants *)
TotalResult ==          \* every operator is total: a value, Err or Unk (or the composite of say / roll / laws)
  LET r == Result(c) IN r.t \in {"myst", "null", "bool", "num", "str", "str1", "arr", "err", "unk", "say", "roll", "laws"}

MB(op, a, b) == BinOp(op, a, b)
MT(a) == Truthy(a)
MI(a, k) == Inc(a, k)
MN(a) == Not(a)

LawsHold ==
  c.k = "laws" =>
    LET a == c.a b == c.b IN
    /\ EqSym(MB, a, b)
    /\ NeqIsNegation(MB, a, b)
    /\ LtGtMirror(MB, a, b)
    /\ LeGeMirror(MB, a, b)
    /\ ErrMirror(MB, a, b)
    /\ AntisymIsEq(MB, a, b)
    /\ OrderConsistent(MB, a, b)
    /\ LogicAgreesWithTruthy(MB, MT, a, b)
    /\ NotAgreesWithTruthy(MN, MT, a)
    /\ \A k \in {1, 2, 3, -1, -2, -3} : IncDecInverse(MI, a, k)

ArrayLaws ==
  /\ c.k = "store" => /\ ReadAfterWrite(c.v, c.key, c.x)
                      /\ ExtendWithMysterious(c.v, c.key, c.x)
                      /\ \A j \in UK : WriteLeavesOthers(c.v, c.key, c.x, j)
  /\ c.k = "rock"  => RockThenRollFifo(c.v, c.xs)
  /\ c.k = "say"   => DecayIsLen(c.a)

MutationLaws ==
  /\ c.k = "cut" /\ c.v.t = "str" /\ c.p.t = "str" /\ c.p.s # "" => SplitJoinRoundTrip(c.v.s, c.p.s)
  /\ c.k = "cut" /\ c.v.t = "str" /\ c.p.t = "noparam" => SplitEmptyDelimIsChars(c.v.s)
  /\ c.k = "turn" /\ c.v.t = "num" => RoundLaws(c.v)
  /\ c.k = "inc" /\ c.a.t = "num" /\ c.a.c = "fin" /\ c.a.n >= 0 /\ c.a.n % Den = 0 =>
        CastRadixRoundTrip(c.a.n \div Den, 10)

Emit == c.k = "init" \/ PrintT(<<"R", ToJson([fam |-> "table", c |-> c, r |-> Result(c)])>>)

=============================================================================
