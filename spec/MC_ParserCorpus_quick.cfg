CONSTANTS
  SuffixUsesStaleLine = FALSE
  MaxChars = 400
INIT Init
NEXT Next
INVARIANT Emit
CHECK_DEADLOCK FALSE
