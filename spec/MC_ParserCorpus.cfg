CONSTANTS
  SuffixUsesStaleLine = FALSE
INIT Init
NEXT Next
INVARIANT ParserTotal
INVARIANT Emit
CHECK_DEADLOCK FALSE
