CONSTANTS
  SuffixUsesStaleLine = FALSE
  Alphabet <- SoupFull
  MaxLen = 2
  Prefix <- PrefixNone
SPECIFICATION SpecFast
INVARIANT WellFormed
INVARIANT Terminates
INVARIANT CursorInRange
INVARIANT Complete
INVARIANT Emit
CHECK_DEADLOCK FALSE
