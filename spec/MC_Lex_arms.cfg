CONSTANTS
  SuffixUsesStaleLine = FALSE
  Alphabet <- AlphaSmoke
  MaxLen = 4
  Prefix <- PrefixNone
SPECIFICATION Spec
INVARIANT WellFormed
INVARIANT Terminates
INVARIANT CursorInRange
INVARIANT Complete
INVARIANT Emit
PROPERTY Progress
CHECK_DEADLOCK FALSE
