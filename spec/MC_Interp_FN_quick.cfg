CONSTANTS
  MaxSteps = 3000
  Family = "FN"
  Tier = "quick"
INIT Init
NEXT Next
INVARIANT Inv
INVARIANT Emit
PROPERTY StepOK
CHECK_DEADLOCK FALSE
