CONSTANTS
  SuffixUsesStaleLine = FALSE
  Alphabet <- SoupLong
  MaxLen = 5
  Prefix <- PrefixNone
SPECIFICATION SpecFast
INVARIANT WellFormed
INVARIANT Terminates
INVARIANT CursorInRange
INVARIANT Complete
INVARIANT Emit
CHECK_DEADLOCK FALSE
