CONSTANT Tier = "quick"
CONSTANT Kinds = {"bin","fold","compound","un","inc","say"}
INIT Init
NEXT Next
INVARIANT TotalResult
INVARIANT LawsHold
INVARIANT ArrayLaws
INVARIANT MutationLaws
INVARIANT Emit
CHECK_DEADLOCK FALSE
