---- MODULE InterpTraceDebug ----
(* Diagnosis of a rejected recording: the same machine as InterpTrace, with an invariant that prints the first snapshot (or the     *)
(* final outcome) on which machine and recording disagree.                                                                          *)
(*   TRACE=<one-line ndjson> bin/tlcx -workers 1 -config spec/InterpTraceDebug.cfg spec/InterpTraceDebug.tla | grep -A80 MISMATCH  *)
EXTENDS InterpTrace
Follow ==
  IF l > Len(Rec) THEN TRUE
  ELSE IF m.st = "run" THEN
     LET n == Next1(m) IN
     (EventOK(Rec[l], m, n) \/ (PrintT(<<"MISMATCH-EVENT", n.nev, "model", n.evs[1], "recorded", IF n.nev <= Len(Rec[l].evs) THEN Rec[l].evs[n.nev] ELSE "none">>) /\ FALSE))
  ELSE (EndOK(Rec[l], m) \/ (PrintT(<<"MISMATCH-END", "model", m.st, m.out, m.rd, m.nev, "recorded", Rec[l].st, Rec[l].out, Rec[l].rd, Len(Rec[l].evs), Rec[l].outcome>>) /\ FALSE))
====
