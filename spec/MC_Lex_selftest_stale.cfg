CONSTANTS
  SuffixUsesStaleLine = TRUE
  Alphabet <- AlphaMulti
  MaxLen = 3
  Prefix <- PrefixQNL
SPECIFICATION SpecFast
INVARIANT WellFormed
INVARIANT Terminates
INVARIANT CursorInRange
INVARIANT Complete
PROPERTY Progress
CHECK_DEADLOCK FALSE
