------------------------------ MODULE MC_Parser ------------------------------
(***************************************************************************)
(* Bounded instance of the recogniser: token soup (all sequences of        *)
(* fragments over the parser's dispatch classes) is lexed and parsed by    *)
(* the MODEL; the verdict (accepted, or rejected at a line) and, when      *)
(* accepted, the tree are printed for comparison with the real parser.     *)
(***************************************************************************)
EXTENDS Parser, Json

CONSTANTS Alphabet, MaxLen
VARIABLES src, phase, ngen

NLc == "\n"
SoupFull == {"put ", "let ", "say ", "shout ", "listen ", "if ", "else ", "while ", "until ", "build ", "knock ", "up ", "down ",
             "cut ", "join ", "cast ", "turn ", "round ", "rock ", "roll ", "like ", "break ", "continue ", "take ", "top ",
             "give ", "return ", "back ", "takes ", "taking ", "into ", "be ", "with ", "to ", "at ", "is ", "isnt ", "says ",
             "not ", "and ", "or ", "nor ", "as ", "than ", "bigger ", "big ", "plus ", "minus ", "times ", "over ",
             NLc, ", ", ". ", "& ", "'n' ", "'s ", "'re ", "- ", "< ", ">= ",
             "foo ", "Bar ", "the ", "it ", "5 ", "\"s\" ", "true ", "mysterious ", "empty ", "ab1 ", "\"open ", "(c) ", "_ "}
SoupCore == {"put ", "let ", "say ", "listen ", "if ", "else ", "while ", "build ", "up ", "cut ", "turn ", "rock ", "roll ",
             "like ", "break ", "take ", "give ", "back ", "takes ", "taking ", "into ", "be ", "with ", "to ", "at ", "is ",
             "says ", "not ", "and ", "as ", "than ", "bigger ", "big ", "plus ", "- ", NLc, ", ", ". ", "'s ",
             "foo ", "Bar ", "the ", "it ", "5 ", "\"s\" ", "true ", "ab1 "}
SoupTiny == {"put ", "let ", "if ", "else ", "while ", "rock ", "roll ", "taking ", "takes ", "into ", "be ", "with ", "at ", "is ",
             "says ", "- ", NLc, ", ", "'s ", "foo ", "Bar ", "the ", "it ", "5 ", "and ", "like ", "give ", "back "}
SoupStmt == {"say ", "foo ", "is ", "5 ", NLc, "if ", "else ", "while ", "takes ", "give back ", "put ", "into ", "it ", ", ", "and ", "break ", "Bar ", "taking ", "- "}

Init == src = "" /\ phase = "gen" /\ ngen = 0
Gen == /\ phase = "gen" /\ ngen < MaxLen
       /\ \E c \in Alphabet : src' = src \o c
       /\ ngen' = ngen + 1 /\ UNCHANGED phase
Parse == phase = "gen" /\ phase' = "parsed" /\ UNCHANGED <<src, ngen>>
Next == Gen \/ Parse

(* the recogniser is total: a verdict for every text, and the top-level loop terminates *)
ParserTotal == phase = "parsed" => LET v == Verdict(src) IN v.ok \/ v.line >= 1
Emit == phase = "parsed" => PrintT(<<"R", ToJson([fam |-> "verdict", text |-> src, v |-> Verdict(src)])>>)
=============================================================================
