------------------------------ MODULE MC_Parser ------------------------------
(***************************************************************************)
(* Bounded instance of the recogniser: token soup (all sequences of        *)
(* fragments over the parser's dispatch classes) is lexed and parsed by    *)
(* the MODEL; the verdict (accepted, or rejected at a line) and, when      *)
(* accepted, the tree are printed for comparison with the real parser.     *)
(***************************************************************************)
EXTENDS Parser, Json

CONSTANTS Alphabet, MaxLen
VARIABLES src, phase, ngen

NLc == "\n"
SoupFull == {"put ", "let ", "say ", "shout ", "listen ", "if ", "else ", "while ", "until ", "build ", "knock ", "up ", "down ",
             "cut ", "join ", "cast ", "turn ", "round ", "rock ", "roll ", "like ", "break ", "continue ", "take ", "top ",
             "give ", "return ", "back ", "takes ", "taking ", "into ", "be ", "with ", "to ", "at ", "is ", "isnt ", "says ",
             "not ", "and ", "or ", "nor ", "as ", "than ", "bigger ", "big ", "plus ", "minus ", "times ", "over ",
             NLc, ", ", ". ", "& ", "'n' ", "'s ", "'re ", "- ", "< ", ">= ",
             "foo ", "Bar ", "the ", "it ", "5 ", "\"s\" ", "true ", "mysterious ", "empty ", "ab1 ", "\"open ", "(c) ", "_ "}
SoupCore == {"put ", "let ", "say ", "listen ", "if ", "else ", "while ", "build ", "up ", "cut ", "turn ", "rock ", "roll ",
             "like ", "break ", "take ", "give ", "back ", "takes ", "taking ", "into ", "be ", "with ", "to ", "at ", "is ",
             "says ", "not ", "and ", "as ", "than ", "bigger ", "big ", "plus ", "- ", NLc, ", ", ". ", "'s ",
             "foo ", "Bar ", "the ", "it ", "5 ", "\"s\" ", "true ", "ab1 "}
SoupTiny == {"put ", "let ", "if ", "else ", "while ", "rock ", "roll ", "taking ", "takes ", "into ", "be ", "with ", "at ", "is ",
             "says ", "- ", NLc, ", ", "'s ", "foo ", "Bar ", "the ", "it ", "5 ", "and ", "like ", "give ", "back "}
SoupStmt == {"say ", "foo ", "is ", "5 ", NLc, "if ", "else ", "while ", "takes ", "give back ", "put ", "into ", "it ", ", ", "and ", "break ", "Bar ", "taking ", "- "}

(* right-hand sides of `is` / `like`: where a poetic literal starts and where it does not (a literal word or a negative number first *)
(* makes the right-hand side an ordinary expression, which must then be one to the end of the line)                                *)
SoupPoetic == {"foo is ", "true ", "nothing ", "-", "- ", "5 ", ".5 ", "love ", "so ", ". ", "'s ", NLc, "rock foo like ", "plus ", "foo says ", "not "}

(* an `else` in every place: after an if that had none, after a loop, after a function, twice, first (the top-level loop must  *)
(* consume it or reject it)                                                                                                      *)
SoupElse == {"if foo" \o NLc, "say foo" \o NLc, NLc, "else" \o NLc, "while foo" \o NLc, "foo takes bar" \o NLc, "give back 1" \o NLc, "else "}

(* whole lines and line pieces: most sequences are several statements with block structure, many of them valid *)
SoupLines == {"say foo" \o NLc, "put 5 into foo" \o NLc, "if foo" \o NLc, "else" \o NLc, NLc, "while foo" \o NLc, "foo takes bar" \o NLc,
              "give back 1" \o NLc, "foo is 5" \o NLc, "foo is lovely day" \o NLc, "break" \o NLc, "say ", "foo ", "plus ", "5 ", ", ", "and ",
              "taking ", "\"s\" ", "it ", "at ", "is ", "not ", "rock foo with ", "roll foo ", "into bar" \o NLc, "build foo up" \o NLc,
              "listen to foo" \o NLc, "cut foo into bar with \",\"" \o NLc, "turn foo up" \o NLc, "continue" \o NLc, "foo says hi there" \o NLc,
              "until foo is bar" \o NLc, "Bar Baz taking foo" \o NLc, "let foo be with 1, 2" \o NLc}

Init == src = "" /\ phase = "gen" /\ ngen = 0
Gen == /\ phase = "gen" /\ ngen < MaxLen
       /\ \E c \in Alphabet : src' = src \o c
       /\ ngen' = ngen + 1 /\ UNCHANGED phase
Parse == phase = "gen" /\ phase' = "parsed" /\ UNCHANGED <<src, ngen>>
Next == Gen \/ Parse

(* the recogniser is total: a verdict for every text, and the top-level loop terminates *)
ParserTotal == phase = "parsed" => LET v == Verdict(src) IN v.ok \/ v.line >= 1
Emit == phase = "parsed" => PrintT(<<"R", ToJson([fam |-> "verdict", text |-> src, v |-> Verdict(src)])>>)
=============================================================================
