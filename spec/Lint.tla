-------------------------------- MODULE Lint --------------------------------
(***************************************************************************)
(* The constant folders (src/analysis/tools.rs) and the linter             *)
(* (src/linter): the boring-assignment pass, repeated-identifier pass and   *)
(* the merge of their reports (C17, C18, C19).                             *)
(*                                                                         *)
(* Fold results: [ok |-> TRUE, v |-> value] or [ok |-> FALSE, why |->      *)
(* "WrongType" | "UnknownValue" | "NeedMoreInfo" | "PossibleValueIgnored"] *)
(***************************************************************************)
EXTENDS Values, TLC

PO == INSTANCE Poetic
VI == INSTANCE Visitor

FOk(v) == [ok |-> TRUE, v |-> v]
FNo(why) == [ok |-> FALSE, why |-> why]

(* NumericConstantFolder *)
RECURSIVE FoldNum(_)
RECURSIVE FoldNumRest(_, _, _)       \* acc op (rest...), left to right
FoldNumRest(op, acc, rest) ==
  IF rest = <<>> THEN FOk(acc)
  ELSE LET b == FoldNum(Head(rest)) IN
       IF op \notin ArithOps THEN FNo("WrongType")                \* the operand is visited, its result discarded
       ELSE IF ~b.ok THEN b
       ELSE FoldNumRest(op, CASE op = "plus" -> NumAdd(acc, b.v) [] op = "minus" -> NumSub(acc, b.v)
                                  [] op = "times" -> NumMul(acc, b.v) [] op = "over" -> NumDiv(acc, b.v), Tail(rest))
FoldNum(e) ==
  CASE e.e = "lit" -> IF e.v.t = "num" THEN FOk(e.v) ELSE FNo("WrongType")
    [] e.e \in {"var", "pro", "idx", "roll", "call"} -> FNo("UnknownValue")
    [] e.e = "plit" -> FOk(PoeticNum(PO!Digits(e.elems)))
    [] e.e = "un" -> LET x == FoldNum(e.x) IN
                     IF ~x.ok THEN x ELSE IF e.op = "neg" THEN FOk(NumNeg(x.v)) ELSE FNo("WrongType")
    [] e.e = "bin" -> LET l == FoldNum(e.l) IN IF ~l.ok THEN l ELSE FoldNumRest(e.op, l.v, e.r)
FoldNumList(es) == IF Len(es) > 1 THEN FNo("NeedMoreInfo") ELSE FoldNum(es[1])

(* SimpleStringConstantFolder *)
FoldStr(e) ==
  CASE e.e = "lit" -> IF e.v.t = "str" THEN FOk(e.v) ELSE FNo("WrongType")
    [] e.e \in {"var", "pro", "idx", "roll", "call"} -> FNo("UnknownValue")
    [] e.e = "plit" -> FNo("WrongType")
    [] e.e = "un" -> FNo("WrongType")
    [] e.e = "bin" -> FNo("PossibleValueIgnored")
FoldStrList(es) == IF Len(es) > 1 THEN FNo("NeedMoreInfo") ELSE FoldStr(es[1])

(* C17: exactly the expressions built from number literals, poetic literals, unary minus and + - * /     *)
(* (list operands included) fold to a number; nothing that reads state does                             *)
RECURSIVE PureArith(_)
PureArith(e) ==
  CASE e.e = "lit" -> e.v.t = "num"
    [] e.e = "plit" -> TRUE
    [] e.e = "un" -> e.op = "neg" /\ PureArith(e.x)
    [] e.e = "bin" -> e.op \in ArithOps /\ PureArith(e.l) /\ \A i \in 1..Len(e.r) : PureArith(e.r[i])
    [] OTHER -> FALSE
FoldExact(e) == FoldNum(e).ok <=> PureArith(e)

-----------------------------------------------------------------------------
(* rendering of targets and values in messages *)
RenderTarget(t) == CASE t.e = "var" -> t.n [] t.e = "pro" -> "<pronoun>" [] t.e = "lit" -> "<literal>" [] OTHER -> "<expression>"

(* the poetic template of a printed number: one word of as many letters as each digit (ten for 0), the  *)
(* period directly after the word before it                                                             *)
RECURSIVE Stars(_)
Stars(n) == IF n = 0 THEN "" ELSE "*" \o Stars(n - 1)
RECURSIVE Template(_, _)
Template(txt, first) ==
  IF txt = "" THEN ""
  ELSE LET c == CharAt(txt, 1) rest == SubSeq(txt, 2, Len(txt)) IN
       IF c = "." THEN "." \o Template(rest, FALSE)
       ELSE (IF first THEN "" ELSE " ") \o Stars(IF DigitVal(c) = 0 THEN 10 ELSE DigitVal(c)) \o Template(rest, FALSE)

HasPoeticSpelling(v) == (v.c = "fin" /\ v.n >= 0) \/ (v.c \in {"big", "tiny", "dec"} /\ v.s > 0)                    \* finite and not negative (also not -0)
HasLineBreak(s) == \E i \in 1..Len(s) : CharAt(s, i) = "\n"

(* a report of the boring-assignment pass *)
NumDiag(line, target, v, rockForm) ==
  [pass |-> "boring", line |-> line, target |-> target, value |-> NumToStr(v), det |-> v.c \notin {"inexact", "rat"},
   sugg |-> IF ~HasPoeticSpelling(v) THEN <<>>
            ELSE << (IF rockForm THEN "Rock " \o target \o " like " ELSE target \o " is ") \o Template(NumToStr(v), TRUE) >>]
StrDiag(line, target, v) ==
  [pass |-> "boring", line |-> line, target |-> target, value |-> "\"" \o v.s \o "\"", det |-> TRUE,
   sugg |-> IF HasLineBreak(v.s) THEN <<>> ELSE << target \o " says " \o v.s >>]

AssignLike(line, dest, es) ==
  LET n == FoldNumList(es) IN
  IF n.ok THEN <<NumDiag(line, RenderTarget(dest), n.v, FALSE)>>
  ELSE IF n.why = "WrongType" THEN (LET t == FoldStrList(es) IN IF t.ok THEN <<StrDiag(line, RenderTarget(dest), t.v)>> ELSE <<>>)
  ELSE <<>>

RECURSIVE BoringS(_)
RECURSIVE BoringB(_)
BoringB(ss) == IF ss = <<>> THEN <<>> ELSE BoringS(Head(ss)) \o BoringB(Tail(ss))
BoringS(s) ==
  CASE s.s = "assign" -> IF s.op # "none" THEN <<>> ELSE AssignLike(s.line, s.dest, s.vals)
    [] s.s = "pnum" -> IF s.e.e = "plit" THEN <<>> ELSE AssignLike(s.line, s.dest, <<s.e>>)
    [] s.s = "rock" -> IF s.vals = <<>> \/ s.vals[1].e = "plit" THEN <<>>
                       ELSE LET n == FoldNumList(s.vals) IN IF n.ok THEN <<NumDiag(s.line, RenderTarget(s.a), n.v, TRUE)>> ELSE <<>>
    [] s.s = "if" -> BoringB(s.th) \o (IF s.hasElse THEN BoringB(s.el) ELSE <<>>)
    [] s.s \in {"while", "until", "func"} -> BoringB(s.body)
    [] OTHER -> <<>>
RECURSIVE BoringP(_)
BoringP(bs) == IF bs = <<>> THEN <<>> ELSE BoringB(Head(bs)) \o BoringP(Tail(bs))

-----------------------------------------------------------------------------
(* the repeated-identifier pass: variable mentions in traversal order (the walk of Visitor.tla), each    *)
(* with its line and whether it is the name of a called function                                         *)
M(n, line, isCall) == [n |-> n, line |-> line, call |-> isCall]
RECURSIVE MentE(_, _)
RECURSIVE MentEs(_, _)
MentEs(es, l) == IF es = <<>> THEN <<>> ELSE MentE(Head(es), l) \o MentEs(Tail(es), l)
MentE(e, l) ==
  CASE e.e = "var" -> <<M(e.n, l, FALSE)>>
    [] e.e = "idx" -> MentE(e.a, l) \o MentE(e.k, l)
    [] e.e = "call" -> <<M(e.f, l, TRUE)>> \o MentEs(e.args, l)
    [] e.e = "roll" -> MentE(e.a, l)
    [] e.e = "un" -> MentE(e.x, l)
    [] e.e = "bin" -> MentE(e.l, l) \o MentEs(e.r, l)
    [] OTHER -> <<>>
RECURSIVE MentS(_)
RECURSIVE MentB(_)
MentB(ss) == IF ss = <<>> THEN <<>> ELSE MentS(Head(ss)) \o MentB(Tail(ss))
MentS(s) ==
  LET l == s.line IN
  CASE s.s = "assign" -> MentE(s.dest, l) \o MentEs(s.vals, l)
    [] s.s = "pnum" -> MentE(s.dest, l) \o MentE(s.e, l)
    [] s.s = "pstr" -> MentE(s.dest, l)
    [] s.s = "if" -> MentE(s.c, l) \o MentB(s.th) \o (IF s.hasElse THEN MentB(s.el) ELSE <<>>)
    [] s.s \in {"while", "until"} -> MentE(s.c, l) \o MentB(s.body)
    [] s.s \in {"inc", "dec", "listen"} -> MentE(s.dest, l)
    [] s.s \in {"say", "return", "turn"} -> MentE(s.e, l)
    [] s.s = "mut" -> MentE(s.operand, l) \o MentE(s.dest, l) \o MentE(s.param, l)
    [] s.s = "rock" -> MentE(s.a, l) \o MentEs(s.vals, l)
    [] s.s = "rollst" -> MentE(s.a, l) \o MentE(s.dest, l)
    [] s.s = "func" -> <<M(s.name, l, FALSE)>> \o [i \in 1..Len(s.ps) |-> M(s.ps[i], l, FALSE)] \o MentB(s.body)
    [] s.s = "callst" -> <<M(s.f, l, TRUE)>> \o MentEs(s.args, l)
    [] OTHER -> <<>>
RECURSIVE MentP(_)
MentP(bs) == IF bs = <<>> THEN <<>> ELSE MentB(Head(bs)) \o MentP(Tail(bs))

(* a mention is reported when it spells the previous mention's name and is not a called function's name; *)
(* a reported mention does not become the "previous" one (it already equals it)                         *)
RepeatedOf(ms) ==
  LET RECURSIVE R(_, _)
      R(i, last) == IF i > Len(ms) THEN <<>>
                    ELSE LET hit == ~ms[i].call /\ last = <<ms[i].n>> IN
                         (IF hit THEN <<[pass |-> "repeat", line |-> ms[i].line, target |-> ms[i].n]>> ELSE <<>>)
                         \o R(i + 1, <<ms[i].n>>)
  IN R(1, <<>>)
(* independent statement of the same thing on the mention sequence *)
RepeatedDef(ms) == { i \in 2..Len(ms) : ms[i].n = ms[i - 1].n /\ ~ms[i].call }
RepeatedExact(bs) == LET ms == MentP(bs) IN Len(RepeatedOf(ms)) = Cardinality(RepeatedDef(ms))

(* the linter's report: all passes, stably sorted by line (ties in pass order) *)
RECURSIVE InsertSorted(_, _)
InsertSorted(sorted, d) ==      \* after every element whose line is <= d.line
  IF sorted = <<>> THEN <<d>>
  ELSE IF Head(sorted).line <= d.line THEN <<Head(sorted)>> \o InsertSorted(Tail(sorted), d)
  ELSE <<d>> \o sorted
RECURSIVE StableSort(_, _)
StableSort(ds, acc) == IF ds = <<>> THEN acc ELSE StableSort(Tail(ds), InsertSorted(acc, Head(ds)))
Report(bs) == StableSort(BoringP(bs) \o RepeatedOf(MentP(bs)), <<>>)

SortedByLine(ds) == \A i \in 1..(Len(ds) - 1) : ds[i].line <= ds[i + 1].line
PassOrderOnTies(ds) == \A i \in 1..(Len(ds) - 1) : ds[i].line = ds[i + 1].line => ~(ds[i].pass = "repeat" /\ ds[i + 1].pass = "boring")
=============================================================================
