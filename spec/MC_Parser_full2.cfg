CONSTANTS
  SuffixUsesStaleLine = FALSE
  Alphabet <- SoupFull
  MaxLen = 2
INIT Init
NEXT Next
INVARIANT ParserTotal
INVARIANT Emit
CHECK_DEADLOCK FALSE
