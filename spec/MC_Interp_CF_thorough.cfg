CONSTANTS
  MaxSteps = 3000
  Family = "CF"
  Tier = "thorough"
INIT Init
NEXT Next
INVARIANT Inv
INVARIANT Emit
PROPERTY StepOK
CHECK_DEADLOCK FALSE
