CONSTANTS
  MaxSteps = 100
  Family = "stmt"
  Tier = "quick"
INIT Init
NEXT Next
INVARIANT RoundTrip
INVARIANT Emit
CHECK_DEADLOCK FALSE
