CONSTANTS
  MaxSteps = 3000
  Family = "lint"
  Tier = "thorough"
INIT Init
NEXT Next
INVARIANT Emit
CHECK_DEADLOCK FALSE
