CONSTANTS
  MaxSteps = 2000
  Family = "cli"
  Tier = "quick"
INIT Init
NEXT Next
INVARIANT Emit
CHECK_DEADLOCK FALSE
