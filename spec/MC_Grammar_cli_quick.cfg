CONSTANTS
  MaxSteps = 40000
  Family = "cli"
  Tier = "quick"
INIT Init
NEXT Next
INVARIANT Emit
CHECK_DEADLOCK FALSE
