CONSTANTS
  MaxSteps = 3000
  Family = "DICT"
  Tier = "quick"
INIT Init
NEXT Next
INVARIANT Inv
INVARIANT Emit
PROPERTY StepOK
CHECK_DEADLOCK FALSE
