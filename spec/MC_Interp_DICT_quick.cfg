CONSTANTS
  MaxSteps = 3000
  Family = "DICT"
  Tier = "quick"
INIT Init
NEXT Next
INVARIANT Inv
INVARIANT Emit
CHECK_DEADLOCK FALSE
