CONSTANTS
  SuffixUsesStaleLine = FALSE
  Alphabet <- AlphaApos
  MaxLen = 6
  Prefix <- PrefixNone
SPECIFICATION SpecFast
INVARIANT WellFormed
INVARIANT Terminates
INVARIANT CursorInRange
INVARIANT Complete
INVARIANT Emit
PROPERTY Progress
CHECK_DEADLOCK FALSE
