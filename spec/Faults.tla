------------------------------- MODULE Faults -------------------------------
(***************************************************************************)
(* A catalogue of syntax faults (C13): lines that no statement of the      *)
(* grammar matches, whatever surrounds them, because a required operand or *)
(* keyword is missing, two statements share the line, the line starts with *)
(* something that cannot start a statement (an invalid identifier, a       *)
(* number, an unterminated string).  Each fault occupies exactly one line; *)
(* a program containing it must be rejected and the error must name that   *)
(* line: 1 + the number of line breaks before it.                          *)
(***************************************************************************)
EXTENDS Integers, Sequences

NL == "\n"

MissingOperand == <<"put 5 into", "say", "put into foo", "let foo be", "build up", "knock down", "rock", "roll", "cut", "turn up",
                    "foo taking", "if", "while", "until", "give back", "listen to", "foo takes", "put 5 plus into foo", "say 1 plus",
                    "say foo at", "say not", "join foo with", "cut foo into", "say foo is", "say foo and", "rock foo with", "roll foo into",
                    "let foo at be 5", "foo taking 1,", "say 1 over", "let foo be with", "say foo is as big as", "say -", "foo is", "foo says",
                    "foo says\r", "foo is\r", "say\r", "put 5 into\r",
                    "say foo taking 1 and", "foo taking bar &", "foo takes bar and", "foo taking 1, 2,", "say foo taking 1, and">>     \* the same with a carriage return before the line end
MissingKeyword == <<"put 5 foo", "let foo 5", "build foo", "knock foo", "build foo down", "turn foo", "say foo is bigger bar",
                    "say foo is as big bar", "say foo is as bar", "take it to top", "take it the top", "take to the top", "break it",
                    "take it to the", "put 5 in to foo", "let foo be 5 into bar">>
TwoStatements == <<"say 1 say 2", "put 5 into foo say foo", "build foo up say foo", "break continue", "listen to foo listen to bar",
                   "say 1 put 2 into foo", "roll foo rock foo", "turn foo up turn foo down", "give back 1 give back 2", "say 1 else",
                   \* after a right-hand side that is an ordinary expression (a literal word or a number first), not a poetic literal
                   "foo is true say foo", "foo is 5 say foo", "foo is nothing bar is 2", "foo is -5 say foo", "foo is \"s\" say foo">>
BadStart == <<"ab1 is 5", "_x is 5", "5 is foo", "a1 says hi", "x_y is 5", "+ 1", "and foo", "with 5", "into foo", "back", "up", "taking 1",
              "is 5", ", say 1", "'s 5", "5", "\"str\" is 5", "`", "1abc",
              \* letters followed or interrupted by a character that is no letter (euro sign, one half, emoji, control character)
              "ab` is 5", "x@ is 5", "foo#bar is 5", "pr\fce is 5", "a`b says hi", "~t~` is 5">>
Unterminated == <<"\"open", "say \"open", "put \"x into foo">>

All == << <<"missing operand", MissingOperand>>, <<"missing keyword", MissingKeyword>>, <<"two statements", TwoStatements>>,
          <<"bad start", BadStart>>, <<"unterminated string", Unterminated>> >>

(* what may surround the faulty line *)
Contexts == <<
  [pre |-> "", post |-> ""],
  [pre |-> "", post |-> NL],
  [pre |-> "say 1" \o NL, post |-> NL \o "say 2" \o NL],
  [pre |-> "say \"a" \o NL \o "b\"" \o NL, post |-> NL \o "say 2"],
  [pre |-> "say \"la la" \o NL \o "\"" \o NL \o "bar is 2" \o NL, post |-> NL],
  [pre |-> "(c" \o NL \o ")" \o NL \o "(d" \o NL \o NL \o ") say 1" \o NL, post |-> NL \o "say 2" \o NL],
  [pre |-> "while foo" \o NL \o "say 1" \o NL, post |-> NL \o NL \o "say 2" \o NL],
  [pre |-> NL \o NL \o NL, post |-> ""],
  [pre |-> "if foo" \o NL \o "say 1" \o NL \o "else" \o NL, post |-> NL \o NL],
  [pre |-> "bar takes baz" \o NL \o "give back baz" \o NL \o NL, post |-> NL \o NL \o "say 3"],
  [pre |-> "foo says \"quoted\" (and closed)" \o NL \o "say 1," \o NL, post |-> NL],
  [pre |-> "say 1\r" \o NL \o "bar is 2\r" \o NL, post |-> "\r" \o NL \o "say 2\r" \o NL]          \* a file with CR LF line ends
>>
CountNl(s) == LET RECURSIVE C(_) C(i) == IF i > Len(s) THEN 0 ELSE (IF SubSeq(s, i, i) = NL THEN 1 ELSE 0) + C(i + 1) IN C(1)
=============================================================================
