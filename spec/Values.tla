------------------------------- MODULE Values -------------------------------
(***************************************************************************)
(* The Rockstar value algebra as implemented by rrss (src/exec/val.rs and  *)
(* the operator dispatch of src/exec/produce_val.rs), written as total     *)
(* operators over tagged records.  Every operator returns a value, or Err  *)
(* (the operation is a runtime error), or Unk (the model does not          *)
(* determine the result: it depends on a number outside the exact number   *)
(* domain, on an index the language does not define, or on a resource      *)
(* blow-up).  A run that observes Unk leaves the specified region.         *)
(*                                                                         *)
(* Numbers.  TLC has 32-bit integers and no floats.  A finite number is a  *)
(* fixed-point rational n/Den with Den = 64 and |n| < 2^30.  On this       *)
(* domain IEEE-754 double arithmetic is exact whenever the exact result is *)
(* again in the domain, so + - * / and the three roundings are modelled    *)
(* exactly, including signed zeros, infinities and NaN; a result outside   *)
(* the domain is the taint Inexact.  Integers beyond the domain that a     *)
(* double represents exactly (2^31, 2^32 + 65, 2^53, 1e30 ...) are carried *)
(* symbolically as `big` numbers: a sign and the decimal digits; they have *)
(* order, equality, printing and conversion behaviour but no arithmetic.   *)
(* Non-zero numbers closer to zero than 1/100 (1e-16, 0.001 ...) are       *)
(* carried symbolically too, as `tiny` numbers: a sign and the canonical   *)
(* decimal text of the magnitude.  They are not zero (truthy, unequal to   *)
(* 0), lie strictly between 0 and every finite n/64, round to 0 or +-1,    *)
(* and any other arithmetic on them leaves the exact domain (Inexact).     *)
(***************************************************************************)
EXTENDS Integers, Sequences, FiniteSets, TLC

Den    == 64
MaxN   == 1073741823          \* 2^30 - 1 : bound on |n|
MaxInt == 2147483647

Abs(x) == IF x < 0 THEN -x ELSE x

-----------------------------------------------------------------------------
(* constructors *)
Myst      == [t |-> "myst"]
Null      == [t |-> "null"]
Bool(b)   == [t |-> "bool", b |-> b]
Fin(n)    == [t |-> "num", c |-> "fin", n |-> n]      \* n/Den ; Fin(0) is +0
NumC(c)   == [t |-> "num", c |-> c]
NZero     == NumC("nzero")
PInf      == NumC("pinf")
NInf      == NumC("ninf")
NaN       == NumC("nan")
Big(s, d) == [t |-> "num", c |-> "big", s |-> s, d |-> d]   \* s * d, d decimal digits, |value| > 2^24
HugeText  == "1000000000000000000000000000000"              \* 1e30 as Rust prints it (shortest digits, zero-padded)
Huge      == Big(1, HugeText)
NHuge     == Big(-1, HugeText)
Inexact   == NumC("inexact")
Tiny(s, d) == [t |-> "num", c |-> "tiny", s |-> s, d |-> d]  \* s * d, d = "0.00.." canonical decimal text, 0 < d < 1/100
TinyText  == "0.0000000000000001"                           \* 1e-16, below the machine epsilon
(* any other decimal numeral of at most 15 significant digits (0.26, 123.45): the double nearest to it is printed back digit   *)
(* for digit, distinct numerals are distinct doubles in the same order, and it is on the numeral's side of every n/64           *)
(* the quotient of two small integers that is no multiple of 1/64 (5 over 3): which double it is, and how it prints, the model does *)
(* not say; but it lies strictly between the same neighbours as the exact quotient, so its sign, its three roundings, its          *)
(* truncation and its order against every n/64 and every other such quotient are determined                                      *)
Rat(s, p, q) == [t |-> "num", c |-> "rat", s |-> s, p |-> p, q |-> q]   \* s * p / q ; 1 <= p, q <= MaxRat
MaxRat == 32767
Dec(s, d) == [t |-> "num", c |-> "dec", s |-> s, d |-> d]   \* s * d, d = canonical "ip.fp" (fp non-empty, no trailing zero), 1/100 <= d < 2^24, not a multiple of 1/64
IntV(k)    == Fin(k * Den)
Str(s)    == [t |-> "str", s |-> s]
AnyChar   == [t |-> "str1"]     \* some one-character string the model does not name
Arr(a, d) == [t |-> "arr", a |-> a, d |-> d]          \* d: <<[k |-> key, v |-> val], ...>> sorted by key
EmptyArr  == Arr(<<>>, <<>>)

Err == [t |-> "err"]
Unk == [t |-> "unk", why |-> "undetermined"]
Blowup == [t |-> "unk", why |-> "resource"]     \* executing it needs unbounded time or memory

IsErr(v) == v.t = "err"
IsUnk(v) == v.t = "unk"
IsVal(v) == v.t \in {"myst", "null", "bool", "num", "str", "arr", "str1"}

-----------------------------------------------------------------------------
(* characters: code-point order over printable ASCII; `~` stands for the   *)
(* two-byte letter e-acute (U+00E9), which sorts after all ASCII as `~`    *)
(* itself does.                                                            *)
Ascii == " !\"#$%&'()*+,-./0123456789:;<=>?@ABCDEFGHIJKLMNOPQRSTUVWXYZ[\\]^_`abcdefghijklmnopqrstuvwxyz{|}~"
CharAt(s, i) == SubSeq(s, i, i)
AsciiChars == { CharAt(Ascii, i) : i \in 1..Len(Ascii) }
OrdTable == [ c \in AsciiChars |-> 31 + CHOOSE i \in 1..Len(Ascii) : CharAt(Ascii, i) = c ]
Ord(c) == IF c = "\n" THEN 10 ELSE IF c = "\t" THEN 9 ELSE OrdTable[c]

UpperS == "ABCDEFGHIJKLMNOPQRSTUVWXYZ"
LowerS == "abcdefghijklmnopqrstuvwxyz"
LowerTable == [ c \in { CharAt(UpperS, i) : i \in 1..26 } |->
                  CharAt(LowerS, CHOOSE i \in 1..26 : CharAt(UpperS, i) = c) ]
LowerChar(c) == IF c \in DOMAIN LowerTable THEN LowerTable[c] ELSE c
RECURSIVE LowerStr(_)
LowerStr(s) == IF s = "" THEN "" ELSE LowerChar(CharAt(s, 1)) \o LowerStr(SubSeq(s, 2, Len(s)))

RECURSIVE StrCmp(_, _)        \* "lt" | "eq" | "gt", byte order
StrCmp(a, b) ==
  IF a = "" /\ b = "" THEN "eq"
  ELSE IF a = "" THEN "lt"
  ELSE IF b = "" THEN "gt"
  ELSE LET x == Ord(CharAt(a, 1)) y == Ord(CharAt(b, 1)) IN
       IF x < y THEN "lt" ELSE IF x > y THEN "gt"
       ELSE StrCmp(SubSeq(a, 2, Len(a)), SubSeq(b, 2, Len(b)))

DigitS == "0123456789abcdefghijklmnopqrstuvwxyz"
DigitTable == [ c \in { CharAt(DigitS, i) : i \in 1..36 } |->
                  (CHOOSE i \in 1..36 : CharAt(DigitS, i) = c) - 1 ]
DigitVal(c) == LET l == LowerChar(c) IN IF l \in DOMAIN DigitTable THEN DigitTable[l] ELSE 99
IsDigit(c) == DigitVal(c) < 10 /\ c \in {"0","1","2","3","4","5","6","7","8","9"}

-----------------------------------------------------------------------------
(* numbers *)
NKind(v) ==      \* "nan" | "inexact" | "inf" | "huge" | "tiny" | "zero" | "fin"
  CASE v.c = "nan" -> "nan"
    [] v.c = "inexact" -> "inexact"
    [] v.c \in {"pinf", "ninf"} -> "inf"
    [] v.c = "big" -> "huge"
    [] v.c = "tiny" -> "tiny"
    [] v.c = "dec" -> "dec"
    [] v.c = "rat" -> "rat"
    [] v.c = "nzero" -> "zero"
    [] v.c = "fin" -> IF v.n = 0 THEN "zero" ELSE "fin"

NSign(v) ==      \* +1 | -1 ; meaningless for nan / inexact
  CASE v.c \in {"ninf", "nzero"} -> -1
    [] v.c \in {"big", "tiny", "dec", "rat"} -> v.s
    [] v.c = "fin" -> IF v.n < 0 THEN -1 ELSE 1
    [] OTHER -> 1

MkFin(n)  == IF n > MaxN \/ n < -MaxN THEN Inexact ELSE Fin(n)
Zero(s)   == IF s < 0 THEN NZero ELSE Fin(0)
Inf(s)    == IF s < 0 THEN NInf ELSE PInf
WithSign(b, s) == Big(s, b.d)

NumNeg(a) ==
  CASE a.c = "fin"   -> IF a.n = 0 THEN NZero ELSE Fin(-a.n)
    [] a.c = "nzero" -> Fin(0)
    [] a.c = "pinf"  -> NInf
    [] a.c = "ninf"  -> PInf
    [] a.c = "big"   -> Big(-a.s, a.d)
    [] a.c = "tiny"  -> Tiny(-a.s, a.d)
    [] a.c = "dec"   -> Dec(-a.s, a.d)
    [] a.c = "rat"   -> Rat(-a.s, a.p, a.q)
    [] OTHER -> a

NumAdd(a, b) ==
  LET ka == NKind(a) kb == NKind(b) IN
  CASE ka = "nan" \/ kb = "nan" -> NaN
    [] ka = "inexact" \/ kb = "inexact" -> Inexact
    [] ka = "inf" /\ kb = "inf" -> IF NSign(a) = NSign(b) THEN a ELSE NaN
    [] ka = "inf" -> a
    [] kb = "inf" -> b
    [] ka = "huge" /\ kb = "zero" -> a
    [] ka = "zero" /\ kb = "huge" -> b
    [] ka = "huge" \/ kb = "huge" -> Inexact
    [] ka = "zero" /\ kb = "zero" -> IF NSign(a) < 0 /\ NSign(b) < 0 THEN NZero ELSE Fin(0)
    [] ka = "zero" -> b
    [] kb = "zero" -> a
    [] ka \in {"tiny", "dec", "rat"} \/ kb \in {"tiny", "dec", "rat"} -> Inexact
    [] OTHER -> MkFin(a.n + b.n)        \* x + (-x) = +0 under round-to-nearest

NumSub(a, b) == NumAdd(a, NumNeg(b))     \* IEEE: x - y = x + (-y)

NumMul(a, b) ==
  LET ka == NKind(a) kb == NKind(b) s == NSign(a) * NSign(b) IN
  CASE ka = "nan" \/ kb = "nan" -> NaN
    [] ka = "inexact" \/ kb = "inexact" -> Inexact
    [] (ka = "inf" /\ kb = "zero") \/ (ka = "zero" /\ kb = "inf") -> NaN
    [] ka = "inf" \/ kb = "inf" -> Inf(s)
    [] ka = "zero" \/ kb = "zero" -> Zero(s)
    [] ka = "huge" /\ kb = "fin" /\ Abs(b.n) = Den -> WithSign(a, s)
    [] kb = "huge" /\ ka = "fin" /\ Abs(a.n) = Den -> WithSign(b, s)
    [] ka = "huge" \/ kb = "huge" -> Inexact
    [] ka = "tiny" /\ kb = "fin" /\ Abs(b.n) = Den -> Tiny(s, a.d)
    [] kb = "tiny" /\ ka = "fin" /\ Abs(a.n) = Den -> Tiny(s, b.d)
    [] ka = "tiny" \/ kb = "tiny" -> Inexact
    [] ka = "dec" /\ kb = "fin" /\ Abs(b.n) = Den -> Dec(s, a.d)
    [] kb = "dec" /\ ka = "fin" /\ Abs(a.n) = Den -> Dec(s, b.d)
    [] ka = "dec" \/ kb = "dec" -> Inexact
    [] ka = "rat" /\ kb = "fin" /\ Abs(b.n) = Den -> Rat(s, a.p, a.q)
    [] kb = "rat" /\ ka = "fin" /\ Abs(a.n) = Den -> Rat(s, b.p, b.q)
    [] ka = "rat" \/ kb = "rat" -> Inexact
    [] OTHER ->
        LET x == Abs(a.n) y == Abs(b.n) IN
        IF x % Den = 0 /\ (x \div Den) <= MaxN \div y THEN MkFin(s * ((x \div Den) * y))       \* an integer factor: no intermediate overflow
        ELSE IF y % Den = 0 /\ (y \div Den) <= MaxN \div x THEN MkFin(s * (x * (y \div Den)))
        ELSE IF x > MaxInt \div y THEN Inexact
        ELSE LET p == x * y IN
             IF p % Den # 0 THEN Inexact ELSE MkFin(s * (p \div Den))

NumDiv(a, b) ==
  LET ka == NKind(a) kb == NKind(b) s == NSign(a) * NSign(b) IN
  CASE ka = "nan" \/ kb = "nan" -> NaN
    [] ka = "inexact" \/ kb = "inexact" -> Inexact
    [] ka = "inf" /\ kb = "inf" -> NaN
    [] ka = "inf" -> Inf(s)
    [] kb = "inf" -> Zero(s)
    [] ka = "zero" /\ kb = "zero" -> NaN
    [] kb = "zero" -> Inf(s)
    [] ka = "zero" -> Zero(s)
    [] ka = "huge" \/ kb = "huge" -> Inexact
    [] ka = "tiny" /\ kb = "fin" /\ Abs(b.n) = Den -> Tiny(s, a.d)
    [] ka = "tiny" \/ kb = "tiny" -> Inexact
    [] ka = "dec" /\ kb = "fin" /\ Abs(b.n) = Den -> Dec(s, a.d)
    [] ka = "dec" \/ kb = "dec" -> Inexact
    [] ka = "rat" /\ kb = "fin" /\ Abs(b.n) = Den -> Rat(s, a.p, a.q)
    [] ka = "rat" \/ kb = "rat" -> Inexact
    [] OTHER ->
        LET x == Abs(a.n) y == Abs(b.n)
            \* two small integers whose quotient is no multiple of 1/64: a `rat`
            asRat == IF x % Den = 0 /\ y % Den = 0 /\ x \div Den <= MaxRat /\ y \div Den <= MaxRat THEN Rat(s, x \div Den, y \div Den) ELSE Inexact
        IN
        IF x > MaxInt \div Den THEN asRat
        ELSE LET p == x * Den IN
             IF p % y # 0 THEN asRat ELSE MkFin(s * (p \div y))

(* the parts of a canonical decimal text "ip.fp" *)
DecDot(d) == LET RECURSIVE F(_) F(i) == IF i > Len(d) THEN 0 ELSE IF CharAt(d, i) = "." THEN i ELSE F(i + 1) IN F(1)
DecIp(d) == IF DecDot(d) = 0 THEN d ELSE SubSeq(d, 1, DecDot(d) - 1)
DecFp(d) == IF DecDot(d) = 0 THEN "" ELSE SubSeq(d, DecDot(d) + 1, Len(d))
DecInt(d) == LET RECURSIVE V(_, _) V(t, acc) == IF t = "" THEN acc ELSE V(SubSeq(t, 2, Len(t)), acc * 10 + DigitVal(CharAt(t, 1))) IN V(DecIp(d), 0)

(* the three roundings of `turn`: ceil, floor, round-half-away-from-zero.  *)
(* A zero result keeps the sign of the operand, as in IEEE.                *)
NumRound(a, dir) ==      \* dir \in {"up", "down", "nearest"}
  IF a.c = "tiny" THEN (CASE dir = "nearest" -> Zero(a.s)
                          [] dir = "up"   -> IF a.s > 0 THEN IntV(1) ELSE NZero
                          [] dir = "down" -> IF a.s > 0 THEN Fin(0) ELSE IntV(-1))
  ELSE IF a.c = "rat" THEN
         (LET t == a.p \div a.q                                   \* magnitude rounded toward zero; never a tie (that would be a multiple of 1/64)
              m == CASE dir = "nearest" -> IF 2 * (a.p % a.q) > a.q THEN t + 1 ELSE t
                     [] dir = "up"      -> IF a.s > 0 THEN t + 1 ELSE t
                     [] dir = "down"    -> IF a.s > 0 THEN t ELSE t + 1
          IN IF m = 0 THEN Zero(a.s) ELSE MkFin(a.s * m * Den))
  ELSE IF a.c = "dec" THEN
         (LET ip == DecInt(a.d)                                   \* magnitude rounded toward zero
              half == DigitVal(CharAt(a.d, DecDot(a.d) + 1)) >= 5  \* a dec is never exactly half-way (that would be a multiple of 1/64)
              m == CASE dir = "nearest" -> IF half THEN ip + 1 ELSE ip
                     [] dir = "up"      -> IF a.s > 0 THEN ip + 1 ELSE ip
                     [] dir = "down"    -> IF a.s > 0 THEN ip ELSE ip + 1
          IN IF m = 0 THEN Zero(a.s) ELSE MkFin(a.s * m * Den))
  ELSE IF a.c # "fin" \/ a.n % Den = 0 THEN a
  ELSE LET s == NSign(a)
           x == Abs(a.n)
           lo == (x \div Den) * Den          \* magnitude rounded toward zero
           hi == lo + Den
           m == CASE dir = "nearest" -> IF 2 * (x % Den) >= Den THEN hi ELSE lo
                  [] dir = "up"      -> IF s > 0 THEN hi ELSE lo
                  [] dir = "down"    -> IF s > 0 THEN lo ELSE hi
       IN IF m = 0 THEN Zero(s) ELSE MkFin(s * m)

RECURSIVE NatToStr(_)
NatToStr(k) == IF k < 10 THEN CharAt("0123456789", k + 1)
               ELSE NatToStr(k \div 10) \o CharAt("0123456789", (k % 10) + 1)
RECURSIVE StripZeros(_)
StripZeros(s) == IF s # "" /\ CharAt(s, Len(s)) = "0" THEN StripZeros(SubSeq(s, 1, Len(s) - 1)) ELSE s
RECURSIVE PadLeft(_, _)
PadLeft(s, w) == IF Len(s) >= w THEN s ELSE PadLeft("0" \o s, w)

(* magnitude of a finite number in the middle band as canonical decimal text "ip" or "ip.fp" *)
AbsText(v) ==
  CASE v.c \in {"tiny", "dec"} -> v.d
    [] v.c = "fin" -> LET x == Abs(v.n)
                          fr == StripZeros(PadLeft(NatToStr(((x % Den) * 1000000) \div Den), 6))
                      IN NatToStr(x \div Den) \o (IF fr = "" THEN "" ELSE "." \o fr)
    [] OTHER -> "0"
(* order of two canonical decimal texts: longer integer part first, then digit by digit (a canonical fraction has no trailing zero, *)
(* so a proper prefix is the smaller one)                                                                                           *)
DecTextCmp(x, y) ==
  LET xi == DecIp(x) yi == DecIp(y) IN
  IF Len(xi) # Len(yi) THEN (IF Len(xi) < Len(yi) THEN "lt" ELSE "gt")
  ELSE IF StrCmp(xi, yi) # "eq" THEN StrCmp(xi, yi)
  ELSE StrCmp(DecFp(x), DecFp(y))

(* IEEE == and partial_cmp *)
NumEq(a, b) ==      \* "T" | "F" | "U"
  LET ka == NKind(a) kb == NKind(b) IN
  CASE ka = "nan" \/ kb = "nan" -> "F"
    [] ka = "inexact" \/ kb = "inexact" -> "U"
    [] ka = "zero" /\ kb = "zero" -> "T"
    [] (ka = "rat" /\ kb \in {"dec", "tiny"}) \/ (kb = "rat" /\ ka \in {"dec", "tiny"}) -> "U"     \* 1 over 5 and 0.2 are the same double
    [] ka # kb -> "F"
    [] ka = "fin" -> IF a.n = b.n THEN "T" ELSE "F"
    [] ka = "rat" /\ kb = "rat" -> IF a.s = b.s /\ a.p * b.q = b.p * a.q THEN "T" ELSE "F"
    [] ka \in {"huge", "tiny", "dec"} -> IF a.s = b.s /\ a.d = b.d THEN "T" ELSE "F"
    [] OTHER -> IF a.c = b.c THEN "T" ELSE "F"

Rank(v) ==      \* position on the extended real line, finite values in the middle band
  CASE v.c = "ninf" -> -3 [] v.c = "pinf" -> 3 [] v.c = "big" -> 2 * v.s
    [] OTHER -> 0

NumCmp(a, b) ==     \* "lt" | "eq" | "gt" | "none" | "unk"
  LET ka == NKind(a) kb == NKind(b) IN
  CASE ka = "nan" \/ kb = "nan" -> "none"
    [] ka = "inexact" \/ kb = "inexact" -> "unk"
    [] Rank(a) # Rank(b) -> IF Rank(a) < Rank(b) THEN "lt" ELSE "gt"
    [] ka = "huge" ->            \* same sign: more digits is further from zero
         LET m == IF Len(a.d) # Len(b.d) THEN (IF Len(a.d) < Len(b.d) THEN "lt" ELSE "gt")
                  ELSE StrCmp(a.d, b.d)
         IN IF a.s > 0 THEN m ELSE (CASE m = "lt" -> "gt" [] m = "gt" -> "lt" [] OTHER -> "eq")
    [] Rank(a) # 0 -> "eq"
    [] (ka = "rat" /\ kb \in {"dec", "tiny"}) \/ (kb = "rat" /\ ka \in {"dec", "tiny"}) -> "unk"
    [] ka = "rat" \/ kb = "rat" ->      \* against a zero, an n/64 or another quotient: sign first, then integer part, then fraction by cross-multiplication
         LET sg(v, k) == IF k = "zero" THEN 0 ELSE NSign(v)
             x == sg(a, ka) y == sg(b, kb)
             ip(v) == IF v.c = "rat" THEN v.p \div v.q ELSE Abs(v.n) \div Den           \* magnitude: integer part
             fn(v) == IF v.c = "rat" THEN v.p % v.q ELSE Abs(v.n) % Den                  \* fraction numerator
             fd(v) == IF v.c = "rat" THEN v.q ELSE Den                                  \* fraction denominator
         IN IF x # y THEN (IF x < y THEN "lt" ELSE "gt")
            ELSE IF x = 0 THEN "eq"
            ELSE LET m == IF ip(a) # ip(b) THEN (IF ip(a) < ip(b) THEN "lt" ELSE "gt")
                          ELSE LET l == fn(a) * fd(b) r == fn(b) * fd(a) IN IF l < r THEN "lt" ELSE IF l > r THEN "gt" ELSE "eq"
                 IN IF x > 0 THEN m ELSE (CASE m = "lt" -> "gt" [] m = "gt" -> "lt" [] OTHER -> "eq")
    [] ka = "dec" \/ kb = "dec" ->      \* the middle band by decimal text: sign first (a zero has none), then magnitude
         LET sg(v, k) == IF k = "zero" THEN 0 ELSE NSign(v)
             x == sg(a, ka) y == sg(b, kb)
         IN IF x # y THEN (IF x < y THEN "lt" ELSE "gt")
            ELSE IF x = 0 THEN "eq"
            ELSE LET m == DecTextCmp(AbsText(a), AbsText(b)) IN
                 IF x > 0 THEN m ELSE (CASE m = "lt" -> "gt" [] m = "gt" -> "lt" [] OTHER -> "eq")
    [] OTHER -> \* the middle band, on a doubled scale that leaves room for the tiny numbers next to zero
                LET key(v) == CASE v.c = "fin" -> 2 * v.n [] v.c = "tiny" -> v.s [] OTHER -> 0
                    x == key(a) y == key(b)
                IN IF x < y THEN "lt" ELSE IF x > y THEN "gt"
                   ELSE IF ka = "tiny" THEN (LET m == StrCmp(a.d, b.d) IN      \* canonical "0.ddd" texts order as their values
                                             IF a.s > 0 THEN m ELSE (CASE m = "lt" -> "gt" [] m = "gt" -> "lt" [] OTHER -> "eq"))
                   ELSE "eq"

NumTruthy(a) ==     \* "T" | "F" | "U"  (n != 0.0 : NaN is truthy)
  CASE NKind(a) = "zero" -> "F" [] NKind(a) = "inexact" -> "U" [] OTHER -> "T"

(* Rust's Display for f64: shortest representation that round-trips, never *)
(* in exponent form.  For n/64 that is the exact decimal expansion.        *)
NumToStr(a) ==
  CASE a.c = "nan" -> "NaN"
    [] a.c = "pinf" -> "inf"
    [] a.c = "ninf" -> "-inf"
    [] a.c = "nzero" -> "-0"
    [] a.c \in {"big", "tiny", "dec"} -> (IF a.s < 0 THEN "-" ELSE "") \o a.d
    [] a.c \in {"inexact", "rat"} -> "?"
    [] a.c = "fin" ->
        LET x == Abs(a.n)
            ip == NatToStr(x \div Den)
            fr == StripZeros(PadLeft(NatToStr(((x % Den) * 1000000) \div Den), 6))
        IN (IF a.n < 0 THEN "-" ELSE "") \o ip \o (IF fr = "" THEN "" ELSE "." \o fr)

(* `f as usize` : truncation toward zero, saturating, NaN -> 0.            *)
(* Returns a natural number, or -1 for "saturated" (usize::MAX), together  *)
(* with whether the language defines the index (a non-negative integer).   *)
IndexOf(a) ==       \* [i, def]
  CASE a.c = "fin" -> [i |-> IF a.n < 0 THEN 0 ELSE a.n \div Den, def |-> a.n >= 0 /\ a.n % Den = 0]
    [] a.c = "pinf" -> [i |-> -1, def |-> FALSE]
    [] a.c = "big" -> IF a.s > 0 THEN [i |-> -1, def |-> TRUE] ELSE [i |-> 0, def |-> FALSE]
    [] a.c = "inexact" -> [i |-> 0, def |-> FALSE]
    [] a.c = "dec" -> [i |-> IF a.s < 0 THEN 0 ELSE DecInt(a.d), def |-> FALSE]
    [] a.c = "rat" -> [i |-> IF a.s < 0 THEN 0 ELSE a.p \div a.q, def |-> FALSE]
    [] OTHER -> [i |-> 0, def |-> FALSE]          \* -0, NaN, -inf -> 0

(* The number a poetic literal denotes, from its digits (Poetic.tla): sum of digit * 10^place in double arithmetic.  For an  *)
(* integer of at most 15 significant digits every term and every partial sum is an integer below 2^53, hence exact whatever   *)
(* the order of summation; fractions and longer numerals are left undetermined.                                               *)
PoeticNum(d) ==        \* d = [ip |-> digits before the point, fp |-> digits after it]
  LET RECURSIVE Strip(_) Strip(q) == IF q # <<>> /\ Head(q) = 0 THEN Strip(Tail(q)) ELSE q
      RECURSIVE Txt(_) Txt(q) == IF q = <<>> THEN "" ELSE CharAt("0123456789", Head(q) + 1) \o Txt(Tail(q))
      RECURSIVE Nat0(_, _) Nat0(q, acc) == IF q = <<>> THEN acc ELSE Nat0(Tail(q), acc * 10 + Head(q))
      AllZero(q) == \A i \in 1..Len(q) : q[i] = 0
      ip == Strip(d.ip)
  IN IF ~AllZero(d.fp) \/ Len(ip) > 15 THEN Inexact
     ELSE IF Len(ip) <= 8 /\ Nat0(ip, 0) <= MaxN \div Den THEN IntV(Nat0(ip, 0))
     ELSE Big(1, Txt(ip))

-----------------------------------------------------------------------------
(* parsing numbers: Rust's  str::parse::<f64>  (no surrounding blanks, an  *)
(* optional sign, inf / infinity / nan in any case, decimal digits with an *)
(* optional fraction; exponent forms are left undetermined: Unk).          *)
RECURSIVE AllDigits(_)
AllDigits(s) == s = "" \/ (IsDigit(CharAt(s, 1)) /\ AllDigits(SubSeq(s, 2, Len(s))))
RECURSIVE DigitsVal(_, _)     \* value of a digit string, -1 on overflow past 10^8
DigitsVal(s, acc) ==
  IF s = "" THEN acc
  ELSE IF acc > 9999999 THEN -1
  ELSE DigitsVal(SubSeq(s, 2, Len(s)), acc * 10 + DigitVal(CharAt(s, 1)))
RECURSIVE FindChar(_, _, _)
FindChar(s, c, i) == IF i > Len(s) THEN 0 ELSE IF CharAt(s, i) = c THEN i ELSE FindChar(s, c, i + 1)
Pow10(k) == CASE k = 0 -> 1 [] k = 1 -> 10 [] k = 2 -> 100 [] k = 3 -> 1000 [] k = 4 -> 10000
              [] k = 5 -> 100000 [] k = 6 -> 1000000 [] OTHER -> -1

None == [t |-> "none"]
RECURSIVE NumericLooking(_)   \* only characters an exponent-form numeral is made of
NumericLooking(s) == s = "" \/ (CharAt(s, 1) \in {"0","1","2","3","4","5","6","7","8","9",".","e","+","-"}
                                /\ NumericLooking(SubSeq(s, 2, Len(s))))

ParseNum0(s) ==     \* a number value | None | Unk ; no exponent
  LET neg  == s # "" /\ CharAt(s, 1) = "-"
      sgn  == s # "" /\ CharAt(s, 1) \in {"-", "+"}
      body == IF sgn THEN SubSeq(s, 2, Len(s)) ELSE s
      low  == LowerStr(body)
      dot  == FindChar(body, ".", 1)
      ip   == IF dot = 0 THEN body ELSE SubSeq(body, 1, dot - 1)
      fp   == StripZeros(IF dot = 0 THEN "" ELSE SubSeq(body, dot + 1, Len(body)))
      hasE == FindChar(low, "e", 1) # 0 /\ NumericLooking(low)
  IN
  CASE low \in {"inf", "infinity"} -> Inf(IF neg THEN -1 ELSE 1)
    [] low = "nan" -> NaN
    [] body = "" \/ body = "." -> None
    [] ~(AllDigits(ip) /\ AllDigits(IF dot = 0 THEN "" ELSE SubSeq(body, dot + 1, Len(body)))) ->
         IF hasE THEN Unk ELSE None
    [] OTHER ->
        LET iv == DigitsVal(ip, 0)
            fv == DigitsVal(fp, 0)
            k  == Len(fp)
            \* a non-zero fraction below 1/100 with at most 15 significant digits is printed back digit for digit
            lead == LET RECURSIVE Z(_) Z(i) == IF i <= Len(fp) /\ CharAt(fp, i) = "0" THEN Z(i + 1) ELSE i - 1 IN Z(1)
            tiny == iv = 0 /\ fp # "" /\ lead >= 2 /\ Len(fp) - lead <= 15 /\ Len(fp) <= 40
            \* any other fraction of at most 15 significant digits (the integer part is within the fixed-point band here)
            dec == fp # "" /\ Len(fp) <= 40 /\ (IF iv = 0 THEN Len(fp) - lead ELSE Len(NatToStr(iv)) + Len(fp)) <= 15
            orTiny == IF tiny THEN Tiny(IF neg THEN -1 ELSE 1, "0." \o fp)
                      ELSE IF dec THEN Dec(IF neg THEN -1 ELSE 1, NatToStr(iv) \o "." \o fp)
                      ELSE Inexact
            \* an integer numeral of at most 15 significant digits beyond the fixed-point band is a double exactly
            ipS == LET RECURSIVE Z(_) Z(t) == IF Len(t) > 1 /\ CharAt(t, 1) = "0" THEN Z(SubSeq(t, 2, Len(t))) ELSE t IN Z(ip)
        IN IF iv < 0 \/ iv > MaxN \div Den THEN (IF fp = "" /\ Len(ipS) <= 15 THEN Big(IF neg THEN -1 ELSE 1, ipS) ELSE Inexact)
           ELSE IF fv < 0 \/ k > 6 THEN orTiny
           ELSE IF (fv * Den) % Pow10(k) # 0 THEN orTiny
           ELSE LET n == iv * Den + (fv * Den) \div Pow10(k)
                IN IF n = 0 THEN Zero(IF neg THEN -1 ELSE 1)
                   ELSE MkFin(IF neg THEN -n ELSE n)

(* with an exponent: mantissa e [sign] digits; exact results only, everything else is left undetermined *)
ParseNum(s) ==
  LET low == LowerStr(s) ePos == FindChar(low, "e", 1) IN
  IF ePos = 0 \/ low \in {"inf", "infinity", "+inf", "-inf", "+infinity", "-infinity"} \/ ~NumericLooking(IF s # "" /\ CharAt(s, 1) \in {"+", "-"} THEN SubSeq(low, 2, Len(low)) ELSE low)
  THEN ParseNum0(s)
  ELSE LET mant == SubSeq(s, 1, ePos - 1)
           ex == SubSeq(s, ePos + 1, Len(s))
           esgn == ex # "" /\ CharAt(ex, 1) \in {"+", "-"}
           edig == IF esgn THEN SubSeq(ex, 2, Len(ex)) ELSE ex
           m == ParseNum0(mant)
       IN IF edig = "" \/ ~AllDigits(edig) \/ m.t = "none" \/ mant = "" THEN (IF m.t = "none" \/ edig = "" \/ ~AllDigits(edig) THEN None ELSE Unk)
          ELSE IF m.t # "num" THEN m
          ELSE LET k == DigitsVal(edig, 0) neg == esgn /\ CharAt(ex, 1) = "-" IN
               IF m.c # "fin" THEN (IF m.c = "nzero" THEN m ELSE Unk)
               ELSE IF m.n = 0 THEN m
               ELSE IF k < 0 \/ k > 6 THEN Unk
               ELSE IF ~neg THEN (IF Abs(m.n) > MaxN \div Pow10(k) THEN Inexact ELSE MkFin(m.n * Pow10(k)))
               ELSE (IF m.n % Pow10(k) = 0 THEN MkFin(m.n \div Pow10(k)) ELSE Inexact)

(* i64::from_str_radix : optional sign, at least one digit of the radix.   *)
RECURSIVE RadixVal(_, _, _)   \* -1 invalid digit, -2 overflow of the model's range
RadixVal(s, r, acc) ==
  IF s = "" THEN acc
  ELSE LET d == DigitVal(CharAt(s, 1)) IN
       IF d >= r THEN -1
       ELSE IF acc > (MaxN \div Den - d) \div r
            THEN (IF RadixVal(SubSeq(s, 2, Len(s)), r, 0) = -1 THEN -1 ELSE -2)
       ELSE RadixVal(SubSeq(s, 2, Len(s)), r, acc * r + d)

ParseRadix(s, r) ==     \* number | None (not parsable).  Overflow of i64 itself is out of reach (Inexact first)
  LET neg  == s # "" /\ CharAt(s, 1) = "-"
      sgn  == s # "" /\ CharAt(s, 1) \in {"-", "+"}
      body == IF sgn THEN SubSeq(s, 2, Len(s)) ELSE s
  IN IF body = "" THEN None
     ELSE LET v == RadixVal(body, r, 0) IN
          IF v = -1 THEN None
          ELSE IF v = -2 THEN (IF Len(body) > 12 THEN Unk ELSE Inexact)
          ELSE IF v = 0 THEN Fin(0)                     \* integer zero has no sign
          ELSE Fin((IF neg THEN -v ELSE v) * Den)

-----------------------------------------------------------------------------
(* truthiness, output text *)
Truthy(v) ==        \* "T" | "F" | "U"
  CASE v.t \in {"myst", "null"} -> "F"
    [] v.t = "bool" -> IF v.b THEN "T" ELSE "F"
    [] v.t = "num" -> NumTruthy(v)
    [] OTHER -> "T"                  \* every string (also "") and every array (also empty)

Decay(v) == IF v.t = "arr" THEN IntV(Len(v.a)) ELSE v

ScalarText(v) ==    \* text of a decayed value as `say` prints it and as string + x appends it
  CASE v.t = "myst" -> "mysterious"
    [] v.t = "null" -> "null"
    [] v.t = "bool" -> IF v.b THEN "true" ELSE "false"
    [] v.t = "num" -> NumToStr(v)
    [] v.t = "str" -> v.s
    [] v.t = "str1" -> "?"

ToOutStr(v) == ScalarText(Decay(v))
OutDetermined(v) == LET d == Decay(v) IN ~(d.t = "str1" \/ (d.t = "num" /\ d.c \in {"inexact", "rat"}))

-----------------------------------------------------------------------------
(* dictionary keys: mysterious < null < false < true < strings by byte order *)
KeyOf(v) ==         \* key record for a non-numeric scalar
  CASE v.t = "myst" -> [k |-> "myst"]
    [] v.t = "null" -> [k |-> "null"]
    [] v.t = "bool" -> [k |-> "bool", b |-> v.b]
    [] v.t = "str"  -> [k |-> "str", s |-> v.s]
KeyRank(k) == CASE k.k = "myst" -> 0 [] k.k = "null" -> 1
                [] k.k = "bool" -> IF k.b THEN 3 ELSE 2 [] k.k = "str" -> 4
KeyLt(x, y) == IF KeyRank(x) # KeyRank(y) THEN KeyRank(x) < KeyRank(y)
               ELSE x.k = "str" /\ StrCmp(x.s, y.s) = "lt"

DictPos(d, k) == IF \E i \in 1..Len(d) : d[i].k = k THEN CHOOSE i \in 1..Len(d) : d[i].k = k ELSE 0
DictGet(d, k) == LET p == DictPos(d, k) IN IF p = 0 THEN Myst ELSE d[p].v
DictPut(d, k, v) ==
  LET p == DictPos(d, k) IN
  IF p # 0 THEN [d EXCEPT ![p] = [k |-> k, v |-> v]]
  ELSE LET n == Cardinality({ i \in 1..Len(d) : KeyLt(d[i].k, k) })
       IN SubSeq(d, 1, n) \o <<[k |-> k, v |-> v]>> \o SubSeq(d, n + 1, Len(d))

-----------------------------------------------------------------------------
(* equality and ordering *)
RECURSIVE StructEq(_, _)      \* derived PartialEq on the value type: "T" | "F" | "U"
And3(x, y) == IF x = "F" \/ y = "F" THEN "F" ELSE IF x = "U" \/ y = "U" THEN "U" ELSE "T"
RECURSIVE AllEq3(_, _, _)
AllEq3(a, b, i) == IF i > Len(a) THEN "T" ELSE And3(StructEq(a[i], b[i]), AllEq3(a, b, i + 1))
RECURSIVE DictEq3(_, _, _)
DictEq3(a, b, i) == IF i > Len(a) THEN "T"
                    ELSE And3(IF a[i].k = b[i].k THEN StructEq(a[i].v, b[i].v) ELSE "F", DictEq3(a, b, i + 1))
StructEq(a, b) ==
  IF a.t = "str1" \/ b.t = "str1" THEN "U"
  ELSE IF a.t # b.t THEN "F"
  ELSE CASE a.t \in {"myst", "null"} -> "T"
         [] a.t = "bool" -> IF a.b = b.b THEN "T" ELSE "F"
         [] a.t = "num" -> NumEq(a, b)
         [] a.t = "str" -> IF a.s = b.s THEN "T" ELSE "F"
         [] a.t = "arr" -> IF Len(a.a) # Len(b.a) \/ Len(a.d) # Len(b.d) THEN "F"
                           ELSE And3(AllEq3(a.a, b.a, 1), DictEq3(a.d, b.d, 1))

Swap(p) == IF p = <<>> THEN p ELSE <<p[2], p[1]>>
T3Bool(x) == IF x = "T" THEN Bool(TRUE) ELSE IF x = "F" THEN Bool(FALSE) ELSE Unk

RECURSIVE CmpCoerce(_, _)     \* <<a', b'>> | <<>> (no coercion exists)
CmpCoerce(a, b) ==
  IF a.t = b.t THEN <<a, b>>
  ELSE CASE a.t = "myst" -> IF b.t = "null" THEN <<Null, b>> ELSE <<a, b>>
         [] a.t = "arr"  -> IF b.t = "null" THEN <<Decay(a), IntV(0)>> ELSE <<Decay(a), b>>
         [] a.t = "null" -> Swap(CmpCoerce(b, a))
         [] a.t = "bool" -> IF b.t = "null" THEN <<a, Bool(FALSE)>> ELSE Swap(CmpCoerce(b, a))
         [] a.t = "num"  -> IF b.t = "bool" THEN <<T3Bool(NumTruthy(a)), b>>
                            ELSE IF b.t = "null" THEN <<a, IntV(0)>>
                            ELSE Swap(CmpCoerce(b, a))
         [] a.t = "str"  -> IF b.t = "num" THEN
                               LET p == ParseNum(a.s) IN
                               IF p.t = "none" THEN <<>> ELSE <<p, b>>
                            ELSE IF b.t = "bool" THEN <<Bool(a.s # ""), b>>
                            ELSE IF b.t = "null" THEN <<a, Str("")>>
                            ELSE <<a, b>>
         [] a.t = "str1" -> <<Unk, Unk>>

HasUnk(p) == p # <<>> /\ (p[1].t \in {"unk", "str1"} \/ p[2].t \in {"unk", "str1"})

Equals(a, b) ==     \* Bool | Unk
  LET p == CmpCoerce(a, b) IN
  IF p = <<>> THEN Bool(FALSE)
  ELSE IF HasUnk(p) THEN Unk
  ELSE T3Bool(StructEq(p[1], p[2]))

Compare(a, b) ==    \* "lt" | "eq" | "gt" | "none" | "err" | "unk"
  LET p == CmpCoerce(a, b) IN
  IF p = <<>> THEN "none"
  ELSE IF HasUnk(p) THEN "unk"
  ELSE IF p[1].t # p[2].t THEN "err"
  ELSE CASE p[1].t \in {"myst", "null"} -> "eq"
         [] p[1].t = "num" -> NumCmp(p[1], p[2])
         [] p[1].t = "str" -> StrCmp(p[1].s, p[2].s)
         [] OTHER -> "err"                       \* booleans and arrays have no order

-----------------------------------------------------------------------------
(* arithmetic *)
PlusCoerce(a, b) ==
  LET txt(x) == Str(ScalarText(x)) IN
  CASE a.t = "str" /\ b.t \in {"myst", "null", "bool", "num"} -> <<a, txt(b)>>
    [] a.t = "str" /\ b.t = "str" -> <<a, b>>
    [] b.t = "str" /\ a.t \in {"myst", "null", "bool", "num"} -> <<txt(a), b>>
    [] a.t = "null" /\ b.t = "num" -> <<IntV(0), b>>
    [] a.t = "num" /\ b.t = "null" -> <<a, IntV(0)>>
    [] a.t = "arr" \/ b.t = "arr" -> <<Decay(a), Decay(b)>>
    [] OTHER -> <<a, b>>

TextUnk(x) == x.t = "num" /\ x.c \in {"inexact", "rat"}

Plus(a, b) ==
  IF a.t = "str1" \/ b.t = "str1" THEN Unk
  ELSE IF (a.t = "str" /\ TextUnk(b)) \/ (b.t = "str" /\ TextUnk(a)) THEN Unk
  ELSE LET p == PlusCoerce(a, b) IN
       CASE p[1].t = "str" /\ p[2].t = "str" -> Str(p[1].s \o p[2].s)
         [] p[1].t = "num" /\ p[2].t = "num" -> NumAdd(p[1], p[2])
         [] OTHER -> Myst

ArithCoerce(a, b) ==
  CASE a.t = "null" /\ b.t = "num" -> <<IntV(0), b>>
    [] a.t = "num" /\ b.t = "null" -> <<a, IntV(0)>>
    [] a.t = "arr" \/ b.t = "arr" -> <<Decay(a), Decay(b)>>
    [] OTHER -> <<a, b>>

RECURSIVE Repeat(_, _)
Repeat(s, k) == IF k <= 0 THEN "" ELSE s \o Repeat(s, k - 1)
MaxRepeat == 64     \* beyond this a string repetition is a resource question, not a value question

Minus(a, b) ==
  IF a.t = "str1" \/ b.t = "str1" THEN Unk
  ELSE LET p == ArithCoerce(a, b) IN
       IF p[1].t = "num" /\ p[2].t = "num" THEN NumSub(p[1], p[2]) ELSE Myst

Times(a, b) ==
  IF a.t = "str1" \/ b.t = "str1" THEN Unk
  ELSE LET p == ArithCoerce(a, b) IN
       CASE p[1].t = "num" /\ p[2].t = "num" -> NumMul(p[1], p[2])
         [] p[1].t = "str" /\ p[2].t = "num" ->
              LET k == p[2] IN
              CASE NKind(k) = "nan" -> Myst
                [] NKind(k) = "inexact" -> Unk
                [] NKind(k) = "zero" -> Str("")            \* also -0 : -0.0 >= 0.0
                [] NSign(k) < 0 -> Myst
                [] NKind(k) = "tiny" -> Str("")              \* truncated to zero repetitions
                [] NKind(k) = "rat" -> IF k.p \div k.q > MaxRepeat THEN Blowup ELSE Str(Repeat(p[1].s, k.p \div k.q))   \* truncated
                [] NKind(k) = "dec" -> IF DecInt(k.d) > MaxRepeat THEN Blowup ELSE Str(Repeat(p[1].s, DecInt(k.d)))   \* truncated
                [] NKind(k) \in {"inf", "huge"} -> Blowup
                [] OTHER -> IF k.n \div Den > MaxRepeat THEN Blowup ELSE Str(Repeat(p[1].s, k.n \div Den))
         [] OTHER -> Myst

Over(a, b) ==
  IF a.t = "str1" \/ b.t = "str1" THEN Unk
  ELSE LET p == ArithCoerce(a, b) IN
       IF p[1].t = "num" /\ p[2].t = "num" THEN NumDiv(p[1], p[2]) ELSE Myst

Negate(a) == IF a.t = "num" THEN NumNeg(a) ELSE Err
Not(a)    == LET x == Truthy(a) IN IF x = "U" THEN Unk ELSE Bool(x = "F")

BinOps == {"plus", "minus", "times", "over", "and", "or", "nor", "eq", "ne", "gt", "ge", "lt", "le"}
ArithOps == {"plus", "minus", "times", "over"}
LogicOps == {"and", "or", "nor"}

(* the strict (both operands evaluated) binary operators *)
CmpOp(op, a, b) ==
  LET c == Compare(a, b) IN
  CASE c = "err" -> Err
    [] c = "unk" -> Unk
    [] c = "none" -> Bool(FALSE)
    [] op = "gt" -> Bool(c = "gt")
    [] op = "ge" -> Bool(c # "lt")
    [] op = "lt" -> Bool(c = "lt")
    [] op = "le" -> Bool(c # "gt")

BinStrict(op, a, b) ==
  CASE op = "plus"  -> Plus(a, b)
    [] op = "minus" -> Minus(a, b)
    [] op = "times" -> Times(a, b)
    [] op = "over"  -> Over(a, b)
    [] op = "eq"    -> Equals(a, b)
    [] op = "ne"    -> LET e == Equals(a, b) IN IF IsUnk(e) THEN Unk ELSE Bool(~e.b)
    [] op \in {"gt", "ge", "lt", "le"} -> CmpOp(op, a, b)

(* and / or / nor: NeedRhs says whether the right operand is evaluated at  *)
(* all; Logic gives the result from the two truth values.                  *)
NeedRhs(op, ta) ==  \* ta = Truthy(left) \in {"T","F"}
  CASE op = "and" -> ta = "T" [] op = "or" -> ta = "F" [] op = "nor" -> ta = "F"
LogicShort(op, ta) ==       \* result when the right operand is not needed
  CASE op = "and" -> Bool(FALSE) [] op = "or" -> Bool(TRUE) [] op = "nor" -> Bool(FALSE)
LogicFull(op, ta, tb) ==
  CASE op = "and" -> Bool(ta = "T" /\ tb = "T")
    [] op = "or"  -> Bool(ta = "T" \/ tb = "T")
    [] op = "nor" -> Bool(ta = "F" /\ tb = "F")

(* a binary operator applied to two already evaluated operands             *)
BinOp(op, a, b) ==
  IF op \in LogicOps THEN
    LET ta == Truthy(a) IN
    IF ta = "U" THEN Unk
    ELSE IF ~NeedRhs(op, ta) THEN LogicShort(op, ta)
    ELSE LET tb == Truthy(b) IN IF tb = "U" THEN Unk ELSE LogicFull(op, ta, tb)
  ELSE BinStrict(op, a, b)

RECURSIVE FoldOp(_, _, _)     \* a op (b1, b2, ...) = ((a op b1) op b2) ... ; first Err / Unk wins
FoldOp(op, a, bs) ==
  IF bs = <<>> \/ ~IsVal(a) THEN a ELSE FoldOp(op, BinOp(op, a, Head(bs)), Tail(bs))

(* build / knock by k (k may be negative) *)
Inc(v, k) ==
  LET w == IF v.t = "null" THEN IntV(0) ELSE v IN
  CASE w.t = "bool" -> Bool(IF k % 2 # 0 THEN ~w.b ELSE w.b)
    [] w.t = "num"  -> NumAdd(w, IntV(k))
    [] w.t = "str1" -> Err
    [] OTHER -> Err

-----------------------------------------------------------------------------
(* indexing *)
RECURSIVE CharsOf(_)
CharsOf(s) == IF s = "" THEN <<>> ELSE <<Str(CharAt(s, 1))>> \o CharsOf(SubSeq(s, 2, Len(s)))

Index(v, k) ==      \* read  v at k
  CASE v.t = "str" ->
        IF k.t # "num" THEN Err
        ELSE LET ix == IndexOf(k) IN
             IF ~ix.def THEN Unk
             ELSE IF ix.i = -1 \/ ix.i >= Len(v.s) THEN Myst ELSE Str(CharAt(v.s, ix.i + 1))
    [] v.t = "str1" -> IF k.t # "num" THEN Err ELSE Unk
    [] v.t = "arr" ->
        CASE k.t = "num" ->
               LET ix == IndexOf(k) IN
               IF ~ix.def THEN Unk
               ELSE IF ix.i = -1 \/ ix.i >= Len(v.a) THEN Myst ELSE v.a[ix.i + 1]
          [] k.t = "arr" -> Err
          [] k.t = "str1" -> Unk
          [] OTHER -> DictGet(v.d, KeyOf(k))
    [] OTHER -> Err

MaxIndex == 300     \* writes further out are a resource question

(* One level of the write path: the container (mysterious becomes an empty *)
(* array) and key give the slot's current value; PutSlot stores it back.   *)
SlotGet(v, k) ==    \* value | Err | Unk
  LET w == IF v.t = "myst" THEN EmptyArr ELSE v IN
  CASE w.t = "arr" ->
        CASE k.t = "num" ->
               LET ix == IndexOf(k) IN
               IF ix.i = -1 \/ ix.i > MaxIndex THEN Blowup
               ELSE IF ~ix.def THEN Unk
               ELSE IF ix.i >= Len(w.a) THEN Myst ELSE w.a[ix.i + 1]
          [] k.t = "arr" -> Err
          [] k.t = "str1" -> Unk
          [] OTHER -> DictGet(w.d, KeyOf(k))
    [] w.t = "str1" -> Err
    [] OTHER -> Err             \* strings are not assignable by index; null, booleans, numbers not indexable

RECURSIVE Mysts(_)
Mysts(n) == IF n <= 0 THEN <<>> ELSE <<Myst>> \o Mysts(n - 1)
SlotPut(v, k, x) == \* container with the slot set to x (SlotGet succeeded before)
  LET w == IF v.t = "myst" THEN EmptyArr ELSE v IN
  IF k.t = "num" THEN
    LET i == IndexOf(k).i
        ext == w.a \o Mysts(i + 1 - Len(w.a))
    IN Arr([ext EXCEPT ![i + 1] = x], w.d)
  ELSE Arr(w.a, DictPut(w.d, KeyOf(k), x))

ArrayCoerce(v) == IF v.t = "arr" THEN v ELSE IF v.t = "myst" THEN EmptyArr ELSE Arr(<<v>>, <<>>)
Push(v, xs) == LET w == ArrayCoerce(v) IN Arr(w.a \o xs, w.d)
PopVal(v)  == IF v.t # "arr" THEN Err ELSE IF v.a = <<>> THEN Myst ELSE Head(v.a)
PopRest(v) == IF v.a = <<>> THEN v ELSE Arr(Tail(v.a), v.d)

-----------------------------------------------------------------------------
(* cut, join, cast, turn *)
RECURSIVE SplitAt(_, _, _, _)
SplitAt(s, d, i, st) ==
  IF i + Len(d) - 1 > Len(s) THEN <<Str(SubSeq(s, st, Len(s)))>>
  ELSE IF SubSeq(s, i, i + Len(d) - 1) = d
       THEN <<Str(SubSeq(s, st, i - 1))>> \o SplitAt(s, d, i + Len(d), i + Len(d))
       ELSE SplitAt(s, d, i + 1, st)

NoParam == [t |-> "noparam"]

Cut(v, p) ==
  CASE v.t = "str1" -> IF p.t \in {"noparam", "str", "str1"} THEN Unk ELSE Err
    [] v.t # "str" -> Err
    [] p.t = "str1" -> Unk
    [] p.t \notin {"noparam", "str"} -> Err
    [] v.s = "" -> EmptyArr
    [] p.t = "noparam" \/ p.s = "" -> Arr(CharsOf(v.s), <<>>)
    [] OTHER -> Arr(SplitAt(v.s, p.s, 1, 1), <<>>)

RECURSIVE JoinStrs(_, _)
JoinStrs(xs, d) == IF xs = <<>> THEN ""
                   ELSE IF Len(xs) = 1 THEN xs[1].s ELSE xs[1].s \o d \o JoinStrs(Tail(xs), d)

Join(v, p) ==
  IF v.t # "arr" THEN Err
  ELSE IF p.t = "str1" THEN Unk
  ELSE IF p.t \notin {"noparam", "str"} THEN Err
  ELSE LET all == v.a \o [i \in 1..Len(v.d) |-> v.d[i].v]      \* sequence part, then dictionary values in key order
       IN IF \E i \in 1..Len(all) : all[i].t \notin {"str", "str1"} THEN Err
          ELSE IF \E i \in 1..Len(all) : all[i].t = "str1" THEN Unk
          ELSE Str(JoinStrs(all, IF p.t = "noparam" THEN "" ELSE p.s))

(* code points the model can name: printable ASCII, tab, line feed and U+00E9; any other valid scalar value gives AnyChar *)
CodeChars == [c \in (32..126) \cup {9, 10, 233} |->
                CASE c = 9 -> "\t" [] c = 10 -> "\n" [] c = 233 -> "~"
                  [] c = 126 -> "?"                     \* never used: `~` is the place-holder, see NamedCode
                  [] OTHER -> CharAt(Ascii, c - 31)]
NamedCode(c) == c \in DOMAIN CodeChars /\ c # 126

Cast(v, p) ==
  CASE v.t = "num" ->
        IF p.t # "noparam" THEN Err
        ELSE CASE v.c = "inexact" -> Unk
               [] v.c # "fin" -> IF v.c = "nzero" THEN AnyChar ELSE Err   \* NaN, infinities, big integers ; -0 is code point 0
               [] v.n % Den # 0 \/ v.n < 0 -> Err
               [] OTHER -> LET c == v.n \div Den IN
                           IF c > 1114111 \/ (c >= 55296 /\ c <= 57343) THEN Err
                           ELSE IF NamedCode(c) THEN Str(CodeChars[c]) ELSE AnyChar
    [] v.t = "str" ->
        CASE p.t = "noparam" -> LET n == ParseNum(v.s) IN IF n.t = "none" THEN Err ELSE n
          [] p.t = "num" ->
               CASE p.c = "inexact" -> Unk
                 [] p.c # "fin" -> IF p.c = "nzero" THEN Err ELSE Err
                 [] p.n % Den # 0 \/ p.n < 2 * Den \/ p.n > 36 * Den -> Err
                 [] OTHER -> LET n == ParseRadix(v.s, p.n \div Den) IN IF n.t = "none" THEN Err ELSE n
          [] OTHER -> Err
    [] v.t = "str1" -> IF p.t \in {"noparam", "num"} THEN Unk ELSE Err
    [] OTHER -> Err

Turn(v, dir) == IF v.t = "num" THEN NumRound(v, dir) ELSE Err

Mutate(op, v, p) == CASE op = "cut" -> Cut(v, p) [] op = "join" -> Join(v, p) [] op = "cast" -> Cast(v, p)

=============================================================================
