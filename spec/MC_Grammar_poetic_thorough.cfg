CONSTANTS
  MaxSteps = 100
  Family = "poetic"
  Tier = "thorough"
INIT Init
NEXT Next
INVARIANT RoundTrip
INVARIANT Emit
CHECK_DEADLOCK FALSE
