CONSTANTS
  SuffixUsesStaleLine = FALSE
  Alphabet <- FlatAlphabet
  MaxUnit = 1
  TotalChars = 400000
INIT Init
NEXT Next
INVARIANT FlatTotal
INVARIANT Emit
CHECK_DEADLOCK FALSE
