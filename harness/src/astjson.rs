//! Model syntax trees (JSON as printed by TLC from Interp.tla records) -> rrss syntax trees.
//! Abstract names are mapped to concrete `VariableName`s by a `Naming` (default: simple identifiers).

use rrss::frontend::ast::*;
use serde_json::Value as J;
use std::collections::HashMap;

use crate::astb::*;
use crate::jv;

#[derive(Default, Clone)]
pub struct Naming {
    /// abstract name -> list of concrete spellings; mention k uses spelling k mod len
    pub map: HashMap<String, Vec<VariableName>>,
    pub counter: std::cell::Cell<usize>,
}

impl Naming {
    pub fn name(&self, n: &str) -> VariableName {
        match self.map.get(n) {
            Some(v) if !v.is_empty() => {
                let k = self.counter.get();
                self.counter.set(k + 1);
                v[k % v.len()].clone()
            }
            _ => simple(n),
        }
    }
}

pub struct Builder<'a> {
    pub naming: &'a Naming,
}

fn s<'a>(j: &'a J, f: &str) -> &'a str {
    j[f].as_str().unwrap_or_else(|| panic!("field {} missing in {}", f, j))
}
fn line(j: &J) -> u32 {
    j["line"].as_u64().unwrap_or(0) as u32
}

impl<'a> Builder<'a> {
    pub fn literal(&self, v: &J, l: u32) -> PrimaryExpression {
        match s(v, "t") {
            "myst" => lit(LiteralExpression::Mysterious, l),
            "null" => lit(LiteralExpression::Null, l),
            "bool" => lit(LiteralExpression::Boolean(v["b"].as_bool().unwrap()), l),
            "num" => num(jv::num_of(v), l),
            "str" => strlit(&jv::concretise(s(v, "s")), l),
            t => panic!("no literal for value kind {}", t),
        }
    }

    pub fn primary(&self, e: &J, l: u32) -> PrimaryExpression {
        match s(e, "e") {
            "lit" => self.literal(&e["v"], l),
            "var" => PrimaryExpression::Identifier(ident(self.naming.name(s(e, "n")), l)),
            "pro" => PrimaryExpression::Identifier(pronoun(l)),
            "idx" => PrimaryExpression::ArraySubscript(at(self.primary(&e["a"], l), self.primary(&e["k"], l))),
            "call" => PrimaryExpression::FunctionCall(self.call(e, l)),
            "roll" => PrimaryExpression::ArrayPop(Box::new(ArrayPopExpr {
                array: self.primary(&e["a"], l),
            })),
            k => panic!("expression kind {} is not a primary expression", k),
        }
    }

    pub fn call(&self, e: &J, l: u32) -> FunctionCall {
        FunctionCall {
            name: WithRange(self.naming.name(s(e, "f")), rng(l)),
            args: e["args"].as_array().unwrap().iter().map(|a| self.expr(a, l)).collect(),
        }
    }

    pub fn expr(&self, e: &J, l: u32) -> Expression {
        match s(e, "e") {
            "bin" => bin(
                binop(s(e, "op")),
                self.expr(&e["l"], l),
                e["r"].as_array().unwrap().iter().map(|x| self.expr(x, l)).collect(),
            ),
            "un" => un(
                if s(e, "op") == "neg" {
                    UnaryOperator::Minus
                } else {
                    UnaryOperator::Not
                },
                self.expr(&e["x"], l),
            ),
            _ => prim(self.primary(e, l)),
        }
    }

    pub fn lhs(&self, e: &J, l: u32) -> AssignmentLHS {
        match s(e, "e") {
            "var" => AssignmentLHS::Identifier(ident(self.naming.name(s(e, "n")), l)),
            "pro" => AssignmentLHS::Identifier(pronoun(l)),
            "idx" => AssignmentLHS::ArraySubscript(at(self.primary(&e["a"], l), self.primary(&e["k"], l))),
            k => panic!("expression kind {} cannot be an assignment target", k),
        }
    }
    fn opt_lhs(&self, e: &J, l: u32) -> Option<AssignmentLHS> {
        if s(e, "e") == "none" {
            None
        } else {
            Some(self.lhs(e, l))
        }
    }
    fn identifier(&self, e: &J, l: u32) -> WithRange<Identifier> {
        match s(e, "e") {
            "var" => ident(self.naming.name(s(e, "n")), l),
            "pro" => pronoun(l),
            k => panic!("expression kind {} is not an identifier", k),
        }
    }

    pub fn plit(&self, e: &J) -> PoeticNumberLiteral {
        PoeticNumberLiteral {
            elems: e["elems"]
                .as_array()
                .unwrap()
                .iter()
                .map(|x| match s(x, "k") {
                    "w" => PoeticNumberLiteralElem::Word(jv::concretise(s(x, "s"))),
                    "s" => PoeticNumberLiteralElem::WordSuffix(jv::concretise(s(x, "s"))),
                    _ => PoeticNumberLiteralElem::Dot,
                })
                .collect(),
        }
    }

    pub fn stmts(&self, ss: &J) -> Vec<Statement> {
        ss.as_array().unwrap().iter().map(|x| self.stmt(x)).collect()
    }
    pub fn blk(&self, ss: &J, l: u32) -> Block {
        block(self.stmts(ss), l)
    }

    pub fn stmt(&self, j: &J) -> Statement {
        let l = line(j);
        match s(j, "s") {
            "assign" => assign(
                self.lhs(&j["dest"], l),
                match s(j, "op") {
                    "none" => None,
                    op => Some(binop(op)),
                },
                j["vals"].as_array().unwrap().iter().map(|x| self.expr(x, l)).collect(),
            ),
            "pnum" => Statement::PoeticAssignment(PoeticAssignment::Number(PoeticNumberAssignment {
                dest: self.lhs(&j["dest"], l),
                rhs: if s(&j["e"], "e") == "plit" {
                    PoeticNumberAssignmentRHS::PoeticNumberLiteral(self.plit(&j["e"]))
                } else {
                    PoeticNumberAssignmentRHS::Expression(self.expr(&j["e"], l))
                },
            })),
            "pstr" => Statement::PoeticAssignment(PoeticAssignment::String(PoeticStringAssignment {
                dest: self.lhs(&j["dest"], l),
                rhs: jv::concretise(s(j, "str")),
            })),
            "if" => Statement::If(If {
                condition: self.expr(&j["c"], l),
                then_block: self.blk(&j["th"], l),
                else_block: if j["hasElse"].as_bool().unwrap() {
                    Some(self.blk(&j["el"], l))
                } else {
                    None
                },
            }),
            "while" => Statement::While(While {
                condition: self.expr(&j["c"], l),
                block: self.blk(&j["body"], l),
            }),
            "until" => Statement::Until(Until {
                condition: self.expr(&j["c"], l),
                block: self.blk(&j["body"], l),
            }),
            "inc" => Statement::Inc(Inc {
                dest: self.identifier(&j["dest"], l),
                amount: j["n"].as_i64().unwrap() as isize,
            }),
            "dec" => Statement::Dec(Dec {
                dest: self.identifier(&j["dest"], l),
                amount: j["n"].as_i64().unwrap() as isize,
            }),
            "listen" => Statement::Input(Input {
                dest: match self.opt_lhs(&j["dest"], l) {
                    Some(d) => InputDest::Some(d),
                    None => InputDest::None(loc(l)),
                },
            }),
            "say" => say(self.expr(&j["e"], l)),
            "mut" => Statement::Mutation(Mutation {
                operator: match s(j, "op") {
                    "cut" => MutationOperator::Cut,
                    "join" => MutationOperator::Join,
                    _ => MutationOperator::Cast,
                },
                operand: self.primary(&j["operand"], l),
                dest: self.opt_lhs(&j["dest"], l),
                param: if s(&j["param"], "e") == "none" {
                    None
                } else {
                    Some(self.expr(&j["param"], l))
                },
            }),
            "turn" => Statement::Rounding(Rounding {
                direction: match s(j, "dir") {
                    "up" => RoundingDirection::Up,
                    "down" => RoundingDirection::Down,
                    _ => RoundingDirection::Nearest,
                },
                operand: self.expr(&j["e"], l),
            }),
            "break" => Statement::Break(Break(rng(l))),
            "continue" => Statement::Continue(Continue(rng(l))),
            "rock" => {
                let vals = j["vals"].as_array().unwrap();
                Statement::ArrayPush(ArrayPush {
                    array: self.primary(&j["a"], l),
                    value: if vals.is_empty() {
                        None
                    } else if s(&vals[0], "e") == "plit" {
                        Some(ArrayPushRHS::PoeticNumberLiteral(self.plit(&vals[0])))
                    } else {
                        Some(ArrayPushRHS::ExpressionList(elist(vals.iter().map(|x| self.expr(x, l)).collect())))
                    },
                })
            }
            "rollst" => Statement::ArrayPop(ArrayPop {
                expr: ArrayPopExpr {
                    array: self.primary(&j["a"], l),
                },
                dest: self.opt_lhs(&j["dest"], l),
            }),
            "return" => Statement::Return(Return {
                value: self.expr(&j["e"], l),
            }),
            "func" => function(
                self.naming.name(s(j, "name")),
                j["ps"].as_array().unwrap().iter().map(|p| self.naming.name(p.as_str().unwrap())).collect(),
                self.blk(&j["body"], l),
                l,
            ),
            "callst" => Statement::FunctionCall(FunctionCall {
                name: WithRange(self.naming.name(s(j, "f")), rng(l)),
                args: j["args"].as_array().unwrap().iter().map(|a| self.expr(a, l)).collect(),
            }),
            k => panic!("unknown statement kind {}", k),
        }
    }

    pub fn program(&self, blocks: &J) -> Program {
        Program {
            code: blocks
                .as_array()
                .unwrap()
                .iter()
                .map(|b| self.blk(b, 0))
                .filter(|b| !b.is_empty())
                .collect(),
        }
    }
}
