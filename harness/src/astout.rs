//! rrss syntax trees -> the model's JSON schema with source positions erased (inverse of astjson).
//! Names are reported through `back`: case-folded concrete key -> abstract name.

use rrss::frontend::ast::*;
use serde_json::{json, Value as J};
use std::collections::HashMap;

use crate::exec::name_json;
use crate::jv;

pub struct Out<'a> {
    pub back: &'a HashMap<String, String>,
    /// corpus mode: statements keep their `line`, names are canonical strings (`canon_name`)
    pub corpus: bool,
}

/// A name as one string, unique per variable: simple `x`, common `c:the x`, proper `p:big bad` (case-folded; `~` for U+00E9).
pub fn canon_name(n: &VariableName) -> String {
    let low = |s: &str| jv::abstractise(&s.to_lowercase());
    match n {
        VariableName::Simple(s) => low(&s.0),
        VariableName::Common(c) => format!("c:{} {}", low(&c.0), low(&c.1)),
        VariableName::Proper(p) => format!("p:{}", p.0.iter().map(|w| low(w)).collect::<Vec<_>>().join(" ")),
    }
}

fn opname(o: BinaryOperator) -> &'static str {
    match o {
        BinaryOperator::Plus => "plus",
        BinaryOperator::Minus => "minus",
        BinaryOperator::Multiply => "times",
        BinaryOperator::Divide => "over",
        BinaryOperator::And => "and",
        BinaryOperator::Or => "or",
        BinaryOperator::Nor => "nor",
        BinaryOperator::Eq => "eq",
        BinaryOperator::NotEq => "ne",
        BinaryOperator::Greater => "gt",
        BinaryOperator::GreaterEq => "ge",
        BinaryOperator::Less => "lt",
        BinaryOperator::LessEq => "le",
    }
}

impl<'a> Out<'a> {
    pub fn name(&self, n: &VariableName) -> String {
        if self.corpus {
            return canon_name(n);
        }
        let k = name_json(n).to_string();
        self.back.get(&k).cloned().unwrap_or(k)
    }
    fn ident(&self, i: &Identifier) -> J {
        match i {
            Identifier::VariableName(n) => json!({"e":"var","n":self.name(n)}),
            Identifier::Pronoun => json!({"e":"pro"}),
        }
    }
    pub fn primary(&self, p: &PrimaryExpression) -> J {
        match p {
            PrimaryExpression::Literal(l) => json!({"e":"lit","v": match &l.0 {
                LiteralExpression::Mysterious => json!({"t":"myst"}),
                LiteralExpression::Null => json!({"t":"null"}),
                LiteralExpression::Boolean(b) => json!({"t":"bool","b":b}),
                LiteralExpression::Number(f) => jv::num_json(*f),
                LiteralExpression::String(s) => json!({"t":"str","s":jv::abstractise(s)}),
            }}),
            PrimaryExpression::Identifier(i) => self.ident(&i.0),
            PrimaryExpression::ArraySubscript(a) => self.subscript(a),
            PrimaryExpression::FunctionCall(f) => self.call(f),
            PrimaryExpression::ArrayPop(a) => json!({"e":"roll","a":self.primary(&a.array)}),
        }
    }
    fn subscript(&self, a: &ArraySubscript) -> J {
        json!({"e":"idx","a":self.primary(&a.array),"k":self.primary(&a.subscript)})
    }
    fn call(&self, f: &FunctionCall) -> J {
        json!({"e":"call","f":self.name(&f.name.0),"args":f.args.iter().map(|a| self.expr(a)).collect::<Vec<_>>()})
    }
    pub fn expr(&self, e: &Expression) -> J {
        match e {
            Expression::PrimaryExpression(p) => self.primary(p),
            Expression::BinaryExpression(b) => json!({"e":"bin","op":opname(b.operator),"l":self.expr(&b.lhs),
                "r": b.rhs.iter().map(|x| self.expr(x)).collect::<Vec<_>>()}),
            Expression::UnaryExpression(u) => json!({"e":"un","op": if u.operator == UnaryOperator::Minus {"neg"} else {"not"},"x":self.expr(&u.operand)}),
        }
    }
    fn lhs(&self, l: &AssignmentLHS) -> J {
        match l {
            AssignmentLHS::Identifier(i) => self.ident(&i.0),
            AssignmentLHS::ArraySubscript(a) => self.subscript(a),
        }
    }
    fn opt_lhs(&self, l: &Option<AssignmentLHS>) -> J {
        l.as_ref().map_or(json!({"e":"none"}), |x| self.lhs(x))
    }
    fn plit(&self, p: &PoeticNumberLiteral) -> J {
        json!({"e":"plit","elems":p.elems.iter().map(|e| match e {
            PoeticNumberLiteralElem::Word(w) => json!({"k":"w","s":jv::abstractise(w)}),
            PoeticNumberLiteralElem::WordSuffix(w) => json!({"k":"s","s":jv::abstractise(w)}),
            PoeticNumberLiteralElem::Dot => json!({"k":"d"}),
        }).collect::<Vec<_>>()})
    }
    pub fn block(&self, b: &Block) -> J {
        match b {
            Block::Empty(_) => json!([]),
            Block::NonEmpty(ss) => J::Array(ss.iter().map(|s| self.stmt(s)).collect()),
        }
    }
    pub fn stmt(&self, s: &Statement) -> J {
        use rrss::frontend::source_range::Line;
        let mut j = self.stmt0(s);
        if self.corpus {
            j["line"] = json!(s.line());
        }
        j
    }
    fn stmt0(&self, s: &Statement) -> J {
        match s {
            Statement::Assignment(a) => {
                let AssignmentRHS::ExpressionList(el) = &a.value;
                json!({"s":"assign","dest":self.lhs(&a.dest),"op":a.operator.map_or("none", opname),
                       "vals": el.iter().map(|x| self.expr(x)).collect::<Vec<_>>()})
            }
            Statement::PoeticAssignment(PoeticAssignment::Number(p)) => json!({"s":"pnum","dest":self.lhs(&p.dest),"e": match &p.rhs {
                PoeticNumberAssignmentRHS::Expression(e) => self.expr(e),
                PoeticNumberAssignmentRHS::PoeticNumberLiteral(l) => self.plit(l),
            }}),
            Statement::PoeticAssignment(PoeticAssignment::String(p)) => json!({"s":"pstr","dest":self.lhs(&p.dest),"str":jv::abstractise(&p.rhs)}),
            Statement::If(i) => json!({"s":"if","c":self.expr(&i.condition),"th":self.block(&i.then_block),
                                       "hasElse":i.else_block.is_some(),"el":i.else_block.as_ref().map_or(json!([]), |b| self.block(b))}),
            Statement::While(w) => json!({"s":"while","c":self.expr(&w.condition),"body":self.block(&w.block)}),
            Statement::Until(w) => json!({"s":"until","c":self.expr(&w.condition),"body":self.block(&w.block)}),
            Statement::Inc(i) => json!({"s":"inc","dest":self.ident(&i.dest.0),"n":i.amount}),
            Statement::Dec(i) => json!({"s":"dec","dest":self.ident(&i.dest.0),"n":i.amount}),
            Statement::Input(i) => json!({"s":"listen","dest": i.dest.opt().map_or(json!({"e":"none"}), |x| self.lhs(x))}),
            Statement::Output(o) => json!({"s":"say","e":self.expr(&o.value)}),
            Statement::Mutation(m) => json!({"s":"mut","op": match m.operator { MutationOperator::Cut => "cut", MutationOperator::Join => "join", MutationOperator::Cast => "cast" },
                "operand":self.primary(&m.operand),"dest":self.opt_lhs(&m.dest),"param":m.param.as_ref().map_or(json!({"e":"none"}), |e| self.expr(e))}),
            Statement::Rounding(r) => json!({"s":"turn","dir": match r.direction { RoundingDirection::Up => "up", RoundingDirection::Down => "down", RoundingDirection::Nearest => "nearest" },
                "e":self.expr(&r.operand)}),
            Statement::Continue(_) => json!({"s":"continue"}),
            Statement::Break(_) => json!({"s":"break"}),
            Statement::ArrayPush(a) => json!({"s":"rock","a":self.primary(&a.array),"vals": match &a.value {
                None => vec![],
                Some(ArrayPushRHS::ExpressionList(el)) => el.iter().map(|x| self.expr(x)).collect(),
                Some(ArrayPushRHS::PoeticNumberLiteral(p)) => vec![self.plit(p)],
            }}),
            Statement::ArrayPop(a) => json!({"s":"rollst","a":self.primary(&a.expr.array),"dest":self.opt_lhs(&a.dest)}),
            Statement::Return(r) => json!({"s":"return","e":self.expr(&r.value)}),
            Statement::Function(f) => json!({"s":"func","name":self.name(&f.name.0),
                "ps":f.data.params.iter().map(|p| self.name(&p.0)).collect::<Vec<_>>(),"body":self.block(&f.data.body)}),
            Statement::FunctionCall(f) => json!({"s":"callst","f":self.name(&f.name.0),"args":f.args.iter().map(|a| self.expr(a)).collect::<Vec<_>>()}),
        }
    }
    pub fn program(&self, p: &Program) -> J {
        J::Array(p.code.iter().map(|b| self.block(b)).collect())
    }
}

/// the model tree with its `line` fields removed (positions are not part of C02)
pub fn erase_lines(j: &J) -> J {
    match j {
        J::Object(m) => J::Object(m.iter().filter(|(k, _)| k.as_str() != "line").map(|(k, v)| (k.clone(), erase_lines(v))).collect()),
        J::Array(a) => J::Array(a.iter().map(erase_lines).collect()),
        x => x.clone(),
    }
}

/// statement lines in pre-order
pub fn stmt_lines(p: &Program) -> Vec<u32> {
    use rrss::frontend::source_range::Line;
    fn blk(b: &Block, out: &mut Vec<u32>) {
        if let Block::NonEmpty(ss) = b {
            for s in ss {
                out.push(s.line());
                match s {
                    Statement::If(i) => {
                        blk(&i.then_block, out);
                        if let Some(e) = &i.else_block {
                            blk(e, out)
                        }
                    }
                    Statement::While(w) => blk(&w.block, out),
                    Statement::Until(w) => blk(&w.block, out),
                    Statement::Function(f) => blk(&f.data.body, out),
                    _ => {}
                }
            }
        }
    }
    let mut out = Vec::new();
    for b in &p.code {
        blk(b, &mut out)
    }
    out
}
