//! `vh` — the conformance harness binding the TLA+ specification of rrss to the implementation.
//!
//!   vh replay <family> [--jobs N] [--timeout-ms T] [--worker BIN] [--in FILE]
//!        supervisor: reads replay lines printed by TLC (`<<"R", "<json>">>`) or plain JSON lines,
//!        feeds them to worker processes (so that a hang, abort or stack overflow of the code under
//!        test is an observation, not a tool failure) and prints a JSON summary.
//!   vh worker <family>      one verdict line per input line
//!   vh record <family> ...  run the real code on generated inputs and write an ndjson trace

mod astb;
mod astjson;
mod astout;
mod exec;
mod fam;
mod jv;
mod sup;

use serde_json::{json, Value as J};
use std::io::{BufRead, Write};

pub struct Verdict {
    pub st: &'static str, // ok | viol | skip
    pub nontrivial: bool,
    pub msg: String,
    pub obs: J,
}
impl Verdict {
    pub fn ok(nontrivial: bool) -> Self {
        Verdict {
            st: "ok",
            nontrivial,
            msg: String::new(),
            obs: J::Null,
        }
    }
    pub fn ok_with(nontrivial: bool, obs: J) -> Self {
        Verdict {
            st: "ok",
            nontrivial,
            msg: String::new(),
            obs,
        }
    }
    pub fn skip(why: &str) -> Self {
        Verdict {
            st: "skip",
            nontrivial: false,
            msg: why.into(),
            obs: J::Null,
        }
    }
    pub fn viol(msg: String, obs: J) -> Self {
        Verdict {
            st: "viol",
            nontrivial: true,
            msg,
            obs,
        }
    }
    pub fn to_json(&self) -> J {
        json!({"st": self.st, "nontrivial": self.nontrivial, "msg": self.msg, "obs": self.obs})
    }
}

/// A second process of this binary answering one line per request (used for cross-process determinism).
pub struct Helper {
    child: std::process::Child,
    stdin: std::process::ChildStdin,
    stdout: std::io::BufReader<std::process::ChildStdout>,
}
impl Helper {
    pub fn spawn(family: &str) -> Helper {
        let mut child = std::process::Command::new(std::env::current_exe().unwrap())
            .arg("worker")
            .arg(family)
            .stdin(std::process::Stdio::piped())
            .stdout(std::process::Stdio::piped())
            .stderr(std::process::Stdio::null())
            .spawn()
            .expect("cannot start helper process");
        let stdin = child.stdin.take().unwrap();
        let stdout = std::io::BufReader::new(child.stdout.take().unwrap());
        Helper { child, stdin, stdout }
    }
    pub fn ask(&mut self, rec: &J) -> Option<J> {
        writeln!(self.stdin, "{}", rec).ok()?;
        self.stdin.flush().ok()?;
        let mut line = String::new();
        let n = self.stdout.read_line(&mut line).ok()?;
        if n == 0 {
            return None;
        }
        let v: J = serde_json::from_str(&line).ok()?;
        Some(v["obs"].clone())
    }
}
impl Drop for Helper {
    fn drop(&mut self) {
        let _ = self.child.kill();
        let _ = self.child.wait();
    }
}

fn worker(family: &str) {
    if std::env::var("VH_PANIC_MSG").is_err() {
        std::panic::set_hook(Box::new(|_| {}));
    }
    let crash_only = std::env::var("VH_CRASH_ONLY").map_or(false, |v| v == "1");
    let reject_only = std::env::var("VH_REJECT_ONLY").map_or(false, |v| v == "1");
    let stdin = std::io::stdin();
    let stdout = std::io::stdout();
    for line in stdin.lock().lines() {
        let line = match line {
            Ok(l) => l,
            Err(_) => break,
        };
        if line.trim().is_empty() {
            continue;
        }
        let verdict = match serde_json::from_str::<J>(&line) {
            Ok(rec) => {
                let v = fam::check(family, &rec);
                // crash-only mode (C01, C09): only a panic of the code under test counts; aborts and hangs are seen by the supervisor
                if crash_only && v.st == "viol" && !v.msg.to_lowercase().contains("panic") {
                    Verdict::ok_with(v.nontrivial, json!({"ignored_in_crash_only_mode": v.msg}))
                } else if reject_only && v.st == "viol" && rec["v"]["ok"] == true {
                    // reject-only mode (C13): texts the recogniser model accepts are not this property's business
                    Verdict::ok(false)
                } else {
                    v
                }
            }
            Err(e) => Verdict {
                st: "toolerr",
                nontrivial: false,
                msg: format!("unparsable replay line: {}", e),
                obs: J::Null,
            },
        };
        let mut o = stdout.lock();
        let _ = writeln!(o, "{}", verdict.to_json());
        let _ = o.flush();
    }
}

fn main() {
    let args: Vec<String> = std::env::args().collect();
    if args.len() < 3 {
        eprintln!("usage: vh replay|worker|record <family> [options]");
        std::process::exit(2);
    }
    match args[1].as_str() {
        "worker" => worker(&args[2]),
        "replay" => std::process::exit(sup::replay(&args[2], &args[3..])),
        "record" => std::process::exit(fam::record(&args[2], &args[3..])),
        _ => {
            eprintln!("unknown command {}", args[1]);
            std::process::exit(2);
        }
    }
}
