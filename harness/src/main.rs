//! `vh` — the conformance harness binding the TLA+ specification of rrss to the implementation.
//!
//!   vh replay <family> [--jobs N] [--timeout-ms T] [--worker BIN] [--in FILE]
//!        supervisor: reads replay lines printed by TLC (`<<"R", "<json>">>`) or plain JSON lines,
//!        feeds them to worker processes (so that a hang, abort or stack overflow of the code under
//!        test is an observation, not a tool failure) and prints a JSON summary.
//!   vh worker <family>      one verdict line per input line
//!   vh record <family> ...  run the real code on generated inputs and write an ndjson trace

mod astb;
mod exec;
mod fam;
mod jv;
mod sup;

use serde_json::{json, Value as J};
use std::io::{BufRead, Write};

pub struct Verdict {
    pub st: &'static str, // ok | viol | skip
    pub nontrivial: bool,
    pub msg: String,
    pub obs: J,
}
impl Verdict {
    pub fn ok(nontrivial: bool) -> Self {
        Verdict {
            st: "ok",
            nontrivial,
            msg: String::new(),
            obs: J::Null,
        }
    }
    pub fn ok_with(nontrivial: bool, obs: J) -> Self {
        Verdict {
            st: "ok",
            nontrivial,
            msg: String::new(),
            obs,
        }
    }
    pub fn skip(why: &str) -> Self {
        Verdict {
            st: "skip",
            nontrivial: false,
            msg: why.into(),
            obs: J::Null,
        }
    }
    pub fn viol(msg: String, obs: J) -> Self {
        Verdict {
            st: "viol",
            nontrivial: true,
            msg,
            obs,
        }
    }
    pub fn to_json(&self) -> J {
        json!({"st": self.st, "nontrivial": self.nontrivial, "msg": self.msg, "obs": self.obs})
    }
}

fn worker(family: &str) {
    std::panic::set_hook(Box::new(|_| {}));
    let stdin = std::io::stdin();
    let stdout = std::io::stdout();
    for line in stdin.lock().lines() {
        let line = match line {
            Ok(l) => l,
            Err(_) => break,
        };
        if line.trim().is_empty() {
            continue;
        }
        let verdict = match serde_json::from_str::<J>(&line) {
            Ok(rec) => fam::check(family, &rec),
            Err(e) => Verdict {
                st: "toolerr",
                nontrivial: false,
                msg: format!("unparsable replay line: {}", e),
                obs: J::Null,
            },
        };
        let mut o = stdout.lock();
        let _ = writeln!(o, "{}", verdict.to_json());
        let _ = o.flush();
    }
}

fn main() {
    let args: Vec<String> = std::env::args().collect();
    if args.len() < 3 {
        eprintln!("usage: vh replay|worker|record <family> [options]");
        std::process::exit(2);
    }
    match args[1].as_str() {
        "worker" => worker(&args[2]),
        "replay" => std::process::exit(sup::replay(&args[2], &args[3..])),
        "record" => std::process::exit(fam::record(&args[2], &args[3..])),
        _ => {
            eprintln!("unknown command {}", args[1]);
            std::process::exit(2);
        }
    }
}
