//! Direct construction of rrss syntax trees (every node of a statement carries that statement's line,
//! so that `Line::line()` of a built statement is its id).

use rrss::frontend::ast::*;
use rrss::frontend::source_range::{SourceLocation, SourceRange};
use std::sync::Arc;

pub fn rng(line: u32) -> SourceRange {
    ((line, 0), (line, 1)).into()
}
pub fn loc(line: u32) -> SourceLocation {
    SourceLocation::new(line, 0)
}

pub fn simple(name: &str) -> VariableName {
    VariableName::Simple(SimpleIdentifier(name.into()))
}
pub fn common(prefix: &str, word: &str) -> VariableName {
    VariableName::Common(CommonIdentifier(prefix.into(), word.into()))
}
pub fn proper(words: &[&str]) -> VariableName {
    VariableName::Proper(ProperIdentifier(words.iter().map(|s| s.to_string()).collect()))
}

pub fn ident(name: VariableName, line: u32) -> WithRange<Identifier> {
    WithRange(Identifier::VariableName(name), rng(line))
}
pub fn pronoun(line: u32) -> WithRange<Identifier> {
    WithRange(Identifier::Pronoun, rng(line))
}
pub fn var(name: &str, line: u32) -> PrimaryExpression {
    PrimaryExpression::Identifier(ident(simple(name), line))
}
pub fn lit(l: LiteralExpression, line: u32) -> PrimaryExpression {
    PrimaryExpression::Literal(WithRange(l, rng(line)))
}
pub fn num(f: f64, line: u32) -> PrimaryExpression {
    lit(LiteralExpression::Number(f), line)
}
pub fn strlit(s: &str, line: u32) -> PrimaryExpression {
    lit(LiteralExpression::String(s.into()), line)
}
pub fn prim(p: PrimaryExpression) -> Expression {
    Expression::PrimaryExpression(p)
}
pub fn at(array: PrimaryExpression, subscript: PrimaryExpression) -> ArraySubscript {
    ArraySubscript {
        array: Box::new(array),
        subscript: Box::new(subscript),
    }
}
pub fn bin(op: BinaryOperator, lhs: Expression, rhs: Vec<Expression>) -> Expression {
    let mut it = rhs.into_iter();
    let first = it.next().expect("binary expression needs a right operand");
    Expression::BinaryExpression(BinaryExpression {
        operator: op,
        lhs: Box::new(lhs),
        rhs: Box::new(ExpressionList {
            first,
            rest: it.collect(),
        }),
    })
}
pub fn un(op: UnaryOperator, e: Expression) -> Expression {
    Expression::UnaryExpression(UnaryExpression {
        operator: op,
        operand: Box::new(e),
    })
}
pub fn elist(es: Vec<Expression>) -> ExpressionList {
    let mut it = es.into_iter();
    let first = it.next().expect("expression list needs an element");
    ExpressionList {
        first,
        rest: it.collect(),
    }
}
pub fn lhs_var(name: &str, line: u32) -> AssignmentLHS {
    AssignmentLHS::Identifier(ident(simple(name), line))
}
pub fn assign(dest: AssignmentLHS, op: Option<BinaryOperator>, value: Vec<Expression>) -> Statement {
    Statement::Assignment(Assignment {
        dest,
        value: AssignmentRHS::ExpressionList(elist(value)),
        operator: op,
    })
}
pub fn put(name: &str, e: Expression, line: u32) -> Statement {
    assign(lhs_var(name, line), None, vec![e])
}
pub fn say(e: Expression) -> Statement {
    Statement::Output(Output { value: e })
}
pub fn block(stmts: Vec<Statement>, line: u32) -> Block {
    Block::new(loc(line), stmts)
}
pub fn program(blocks: Vec<Vec<Statement>>) -> Program {
    Program {
        code: blocks.into_iter().map(|b| Block::new(loc(0), b)).collect(),
    }
}
pub fn function(name: VariableName, params: Vec<VariableName>, body: Block, line: u32) -> Statement {
    Statement::Function(Function {
        name: WithRange(name, rng(line)),
        data: Arc::new(FunctionData {
            params: params.into_iter().map(|p| WithRange(p, rng(line))).collect(),
            body,
        }),
    })
}

pub fn binop(op: &str) -> BinaryOperator {
    match op {
        "plus" => BinaryOperator::Plus,
        "minus" => BinaryOperator::Minus,
        "times" => BinaryOperator::Multiply,
        "over" => BinaryOperator::Divide,
        "and" => BinaryOperator::And,
        "or" => BinaryOperator::Or,
        "nor" => BinaryOperator::Nor,
        "eq" => BinaryOperator::Eq,
        "ne" => BinaryOperator::NotEq,
        "gt" => BinaryOperator::Greater,
        "ge" => BinaryOperator::GreaterEq,
        "lt" => BinaryOperator::Less,
        "le" => BinaryOperator::LessEq,
        _ => panic!("unknown binary operator {}", op),
    }
}
