//! Supervisor: shards replay lines over worker processes with a per-line watchdog.

use serde_json::{json, Value as J};
use std::collections::hash_map::DefaultHasher;
use std::collections::HashSet;
use std::hash::{Hash, Hasher};
use std::io::{BufRead, BufReader, Write};
use std::process::{Child, ChildStdin, Command, Stdio};
use std::sync::mpsc::{channel, Receiver, RecvTimeoutError};
use std::sync::{Arc, Mutex};
use std::time::Duration;

/// `<<"R", "....">>` -> the JSON text (TLC escapes `"` and `\` inside the string)
pub fn extract(line: &str) -> Option<String> {
    let t = line.trim_end();
    if let Some(rest) = t.strip_prefix("<<\"R\", \"") {
        let inner = rest.strip_suffix("\">>")?;
        let mut out = String::with_capacity(inner.len());
        let mut it = inner.chars();
        while let Some(ch) = it.next() {
            if ch == '\\' {
                match it.next() {
                    Some('n') => out.push('\n'),
                    Some('t') => out.push('\t'),
                    Some('r') => out.push('\r'),
                    Some('f') => out.push('\u{c}'),
                    Some(c) => out.push(c),
                    None => {}
                }
            } else {
                out.push(ch)
            }
        }
        Some(out)
    } else if t.starts_with('{') {
        Some(t.to_string())
    } else {
        None
    }
}

struct WorkerProc {
    child: Child,
    stdin: ChildStdin,
    rx: Receiver<Option<String>>,
}

fn spawn(bin: &str, family: &str, mem_mb: u64) -> WorkerProc {
    let mut cmd = Command::new(bin);
    cmd.arg("worker").arg(family).stdin(Stdio::piped()).stdout(Stdio::piped()).stderr(Stdio::null());
    unsafe {
        use std::os::unix::process::CommandExt;
        cmd.pre_exec(move || {
            let lim = libc::rlimit {
                rlim_cur: mem_mb * 1024 * 1024,
                rlim_max: mem_mb * 1024 * 1024,
            };
            libc::setrlimit(libc::RLIMIT_AS, &lim);
            Ok(())
        });
    }
    let mut child = cmd.spawn().expect("cannot start worker");
    let stdin = child.stdin.take().unwrap();
    let stdout = child.stdout.take().unwrap();
    let (tx, rx) = channel();
    std::thread::spawn(move || {
        let r = BufReader::new(stdout);
        for line in r.lines() {
            match line {
                Ok(l) => {
                    if tx.send(Some(l)).is_err() {
                        return;
                    }
                }
                Err(_) => break,
            }
        }
        let _ = tx.send(None);
    });
    WorkerProc { child, stdin, rx }
}

#[derive(Default)]
struct Agg {
    total: u64,
    ok: u64,
    skipped: u64,
    toolerr: u64,
    distinct: HashSet<u64>,
    distinct_nontrivial: HashSet<u64>,
    violations: Vec<J>,
    n_violations: u64,
    samples: Vec<J>,
    toolerr_msgs: Vec<String>,
    /// union of the specification actions the replayed behaviours exercised (records that carry `acts`)
    acts: std::collections::BTreeSet<String>,
}

pub fn replay(family: &str, args: &[String]) -> i32 {
    let mut jobs = 8usize;
    let mut timeout_ms = 10_000u64;
    let mut worker_bin = std::env::current_exe().unwrap().to_string_lossy().into_owned();
    let mut input: Option<String> = None;
    let mut mem_mb = 4096u64;
    let mut max_viol = 25usize;
    let mut i = 0;
    while i < args.len() {
        match args[i].as_str() {
            "--jobs" => {
                jobs = args[i + 1].parse().unwrap();
                i += 1
            }
            "--timeout-ms" => {
                // never less than 15 s for one case: on a loaded machine a slow answer must not be taken for a hang
                timeout_ms = args[i + 1].parse::<u64>().unwrap().max(15_000);
                i += 1
            }
            "--worker" => {
                worker_bin = args[i + 1].clone();
                i += 1
            }
            "--in" => {
                input = Some(args[i + 1].clone());
                i += 1
            }
            "--mem-mb" => {
                mem_mb = args[i + 1].parse().unwrap();
                i += 1
            }
            "--max-viol" => {
                max_viol = args[i + 1].parse().unwrap();
                i += 1
            }
            a => {
                eprintln!("unknown option {}", a);
                return 2;
            }
        }
        i += 1;
    }
    let reader: Box<dyn BufRead + Send> = match input {
        Some(p) => Box::new(BufReader::new(std::fs::File::open(p).expect("cannot open input"))),
        None => Box::new(BufReader::new(std::io::stdin())),
    };
    let lines = Arc::new(Mutex::new(reader.lines()));
    let agg = Arc::new(Mutex::new(Agg::default()));
    let mut handles = Vec::new();
    for _ in 0..jobs {
        let lines = lines.clone();
        let agg = agg.clone();
        let family = family.to_string();
        let worker_bin = worker_bin.clone();
        handles.push(std::thread::spawn(move || {
            let mut w: Option<WorkerProc> = None;
            loop {
                // take a small batch to reduce lock traffic
                let mut batch = Vec::new();
                {
                    let mut it = lines.lock().unwrap();
                    while batch.len() < 64 {
                        match it.next() {
                            Some(Ok(l)) => {
                                if let Some(j) = extract(&l) {
                                    batch.push(j)
                                }
                            }
                            Some(Err(_)) => {}
                            None => break,
                        }
                    }
                }
                if batch.is_empty() {
                    break;
                }
                // enough is enough: after several hundred violations (each hang costs a full time-out) the verdict is clear
                if agg.lock().unwrap().n_violations >= 400 {
                    break;
                }
                for rec in batch {
                    if w.is_none() {
                        w = Some(spawn(&worker_bin, &family, mem_mb));
                    }
                    let wp = w.as_mut().unwrap();
                    let sent = writeln!(wp.stdin, "{}", rec.replace('\n', " ")).and_then(|_| wp.stdin.flush());
                    let verdict: J = if sent.is_err() {
                        let _ = wp.child.kill();
                        let _ = wp.child.wait();
                        w = None;
                        json!({"st":"viol","nontrivial":true,"msg":"worker process died before accepting the case (crash on the previous case?)","obs":null})
                    } else {
                        match wp.rx.recv_timeout(Duration::from_millis(timeout_ms)) {
                            Ok(Some(l)) => serde_json::from_str(&l).unwrap_or(json!({"st":"toolerr","msg":"bad verdict line"})),
                            Ok(None) | Err(RecvTimeoutError::Disconnected) => {
                                let status = wp.child.wait().ok();
                                w = None;
                                json!({"st":"viol","nontrivial":true,"msg":format!("code under test aborted the process ({:?})", status),"obs":null,"kind":"abort"})
                            }
                            Err(RecvTimeoutError::Timeout) => {
                                let _ = wp.child.kill();
                                let _ = wp.child.wait();
                                w = None;
                                json!({"st":"viol","nontrivial":true,"msg":format!("no result within {} ms: the code under test hangs", timeout_ms),"obs":null,"kind":"hang"})
                            }
                        }
                    };
                    let mut h = DefaultHasher::new();
                    rec.hash(&mut h);
                    let key = h.finish();
                    let mut a = agg.lock().unwrap();
                    a.total += 1;
                    if rec.contains("\"acts\":[") {
                        if let Ok(r) = serde_json::from_str::<J>(&rec) {
                            if let Some(xs) = r["acts"].as_array() {
                                for x in xs {
                                    if let Some(t) = x.as_str() {
                                        a.acts.insert(t.to_string());
                                    }
                                }
                            }
                        }
                    }
                    let fresh = a.distinct.insert(key);
                    match verdict["st"].as_str().unwrap_or("toolerr") {
                        "ok" => {
                            a.ok += 1;
                            if verdict["nontrivial"] == true {
                                a.distinct_nontrivial.insert(key);
                            }
                            if fresh && (a.samples.len() < 3 || (a.samples.len() < 8 && key % 997 == 0)) {
                                if let Ok(r) = serde_json::from_str::<J>(&rec) {
                                    a.samples.push(r)
                                }
                            }
                        }
                        "skip" => a.skipped += 1,
                        "viol" => {
                            a.n_violations += 1;
                            if a.violations.len() < max_viol {
                                let r = serde_json::from_str::<J>(&rec).unwrap_or(J::Null);
                                a.violations.push(json!({"rec": r, "msg": verdict["msg"], "obs": verdict["obs"], "kind": verdict["kind"]}));
                            }
                        }
                        _ => {
                            a.toolerr += 1;
                            if a.toolerr_msgs.len() < 5 {
                                a.toolerr_msgs.push(verdict["msg"].as_str().unwrap_or("").to_string());
                            }
                        }
                    }
                }
            }
            if let Some(mut wp) = w {
                drop(wp.stdin);
                let _ = wp.child.wait();
            }
        }));
    }
    for h in handles {
        let _ = h.join();
    }
    let a = agg.lock().unwrap();
    let summary = json!({
        "family": family,
        "total": a.total,
        "ok": a.ok,
        "skipped": a.skipped,
        "toolerr": a.toolerr,
        "toolerr_msgs": a.toolerr_msgs,
        "distinct": a.distinct.len(),
        "distinct_nontrivial": a.distinct_nontrivial.len(),
        "n_violations": a.n_violations,
        "violations": a.violations,
        "samples": a.samples,
        "spec_actions": a.acts.iter().cloned().collect::<Vec<_>>(),
    });
    println!("{}", summary);
    if a.toolerr > 0 {
        2
    } else if a.n_violations > 0 {
        1
    } else {
        0
    }
}
