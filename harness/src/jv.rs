//! Model value schema (JSON) <-> rrss `Val`, and comparison of an observed `Val` with a model value.
//!
//! Schema: {"t":"myst"} {"t":"null"} {"t":"bool","b":..} {"t":"num","c":"fin","n":k} (= k/64)
//! {"t":"num","c":"nzero"|"pinf"|"ninf"|"nan"|"inexact"} {"t":"num","c":"big","s":+-1,"d":"digits"}
//! {"t":"num","c":"tiny","s":+-1,"d":"0.00ddd"} (non-zero, magnitude below 1/100)
//! {"t":"num","c":"dec","s":+-1,"d":"ip.fp"} (any other decimal numeral of at most 15 significant digits, below 2^24)
//! {"t":"str","s":".."} {"t":"str1"} {"t":"arr","a":[..],"d":[{"k":key,"v":val}..]}
//! key: {"k":"myst"} {"k":"null"} {"k":"bool","b":..} {"k":"str","s":".."}
//! Place-holder characters in model strings: `~` is U+00E9 (two bytes).

use rrss::exec::val::{Array, Val};
use serde_json::{json, Value as J};
use std::collections::VecDeque;

pub const DEN: f64 = 64.0;

pub fn concretise(s: &str) -> String {
    s.replace('~', "\u{e9}")
}
pub fn abstractise(s: &str) -> String {
    s.replace('\u{e9}', "~")
}

pub fn num_of(j: &J) -> f64 {
    match j["c"].as_str().unwrap() {
        "fin" => j["n"].as_i64().unwrap() as f64 / DEN,
        "nzero" => -0.0,
        "pinf" => f64::INFINITY,
        "ninf" => f64::NEG_INFINITY,
        "nan" => f64::NAN,
        "big" => {
            let d = j["d"].as_str().unwrap();
            let f: f64 = d.parse().unwrap();
            assert_eq!(format!("{}", f), d, "model big number is not exactly a double");
            if j["s"].as_i64().unwrap() < 0 {
                -f
            } else {
                f
            }
        }
        // the quotient of two small integers, as the interpreter computes it
        "rat" => j["s"].as_i64().unwrap() as f64 * (j["p"].as_i64().unwrap() as f64 / j["q"].as_i64().unwrap() as f64),
        "dec" => {
            let d = j["d"].as_str().unwrap();
            let f: f64 = d.parse().unwrap();
            assert_eq!(format!("{}", f), d, "model dec number is not printed back digit for digit");
            if j["s"].as_i64().unwrap() < 0 {
                -f
            } else {
                f
            }
        }
        "tiny" => {
            let d = j["d"].as_str().unwrap();
            let f: f64 = d.parse().unwrap();
            assert_eq!(format!("{}", f), d, "model tiny number is not printed back digit for digit");
            assert!(f > 0.0 && f < 0.01, "model tiny number out of its band");
            if j["s"].as_i64().unwrap() < 0 {
                -f
            } else {
                f
            }
        }
        // a number outside the model's exact classes that came from a real parse (program corpus): its shortest round-trip text
        "inexact" if j["text"].is_string() => j["text"].as_str().unwrap().parse().unwrap(),
        c => panic!("number class {} has no concrete value", c),
    }
}

pub fn key_to_val(k: &J) -> Val {
    match k["k"].as_str().unwrap() {
        "myst" => Val::Undefined,
        "null" => Val::Null,
        "bool" => Val::Boolean(k["b"].as_bool().unwrap()),
        "str" => Val::from(concretise(k["s"].as_str().unwrap())),
        x => panic!("bad key kind {}", x),
    }
}

/// Builds the value through the public API (arrays: with_arr, then index_or_insert per dictionary entry).
pub fn to_val(j: &J) -> Val {
    match j["t"].as_str().unwrap() {
        "myst" => Val::Undefined,
        "null" => Val::Null,
        "bool" => Val::Boolean(j["b"].as_bool().unwrap()),
        "num" => Val::Number(num_of(j)),
        "str" => Val::from(concretise(j["s"].as_str().unwrap())),
        "arr" => {
            let arr: VecDeque<Val> = j["a"].as_array().unwrap().iter().map(to_val).collect();
            let mut v: Val = Array::with_arr(arr).into();
            for e in j["d"].as_array().unwrap() {
                *v.index_or_insert(&key_to_val(&e["k"])).unwrap() = to_val(&e["v"]);
            }
            v
        }
        t => panic!("value kind {} has no concrete value", t),
    }
}

fn key_rank(v: &Val) -> (u8, String) {
    match v {
        Val::Undefined => (0, String::new()),
        Val::Null => (1, String::new()),
        Val::Boolean(false) => (2, String::new()),
        Val::Boolean(true) => (3, String::new()),
        Val::String(s) => (4, (**s).clone()),
        _ => (9, String::new()),
    }
}

/// The observed value in the model's schema (numbers outside the exact domain become "inexact" with the
/// printed text attached for diagnostics).
pub fn from_val(v: &Val) -> J {
    match v {
        Val::Undefined => json!({"t":"myst"}),
        Val::Null => json!({"t":"null"}),
        Val::Boolean(b) => json!({"t":"bool","b":b}),
        Val::Number(f) => num_json(*f),
        Val::String(s) => json!({"t":"str","s":abstractise(s)}),
        Val::Array(a) => {
            let (arr, mut dict) = a.verif_parts();
            dict.sort_by(|x, y| key_rank(&x.0).cmp(&key_rank(&y.0)));
            let d: Vec<J> = dict
                .iter()
                .map(|(k, v)| {
                    let kj = match k {
                        Val::Undefined => json!({"k":"myst"}),
                        Val::Null => json!({"k":"null"}),
                        Val::Boolean(b) => json!({"k":"bool","b":b}),
                        Val::String(s) => json!({"k":"str","s":abstractise(s)}),
                        _ => json!({"k":"?"}),
                    };
                    json!({"k":kj,"v":from_val(v)})
                })
                .collect();
            json!({"t":"arr","a":arr.iter().map(from_val).collect::<Vec<_>>(),"d":d})
        }
    }
}

pub fn num_json(f: f64) -> J {
    if f.is_nan() {
        json!({"t":"num","c":"nan"})
    } else if f == f64::INFINITY {
        json!({"t":"num","c":"pinf"})
    } else if f == f64::NEG_INFINITY {
        json!({"t":"num","c":"ninf"})
    } else if f == 0.0 {
        if f.is_sign_negative() {
            json!({"t":"num","c":"nzero"})
        } else {
            json!({"t":"num","c":"fin","n":0})
        }
    } else {
        let scaled = f * DEN;
        if scaled.fract() == 0.0 && scaled.abs() < 1073741824.0 {
            json!({"t":"num","c":"fin","n":scaled as i64})
        } else if f.fract() == 0.0 {
            json!({"t":"num","c":"big","s": if f < 0.0 {-1} else {1},"d":format!("{}", f.abs())})
        } else if f.abs() < 0.01 {
            json!({"t":"num","c":"tiny","s": if f < 0.0 {-1} else {1},"d":format!("{}", f.abs())})
        } else {
            // a decimal numeral of at most 15 significant digits, integer part within the fixed-point band: class `dec`
            let text = format!("{}", f.abs());
            let sig = text.chars().filter(|c| c.is_ascii_digit()).collect::<String>().trim_start_matches('0').len();
            if sig <= 15 && f.abs() < 16777216.0 {
                json!({"t":"num","c":"dec","s": if f < 0.0 {-1} else {1},"d":text})
            } else {
                json!({"t":"num","c":"inexact","text":format!("{}", f)})
            }
        }
    }
}

/// the double an observed number record stands for (None when the record does not determine it)
fn obs_f64(obs: &J) -> Option<f64> {
    match obs["c"].as_str()? {
        "inexact" => obs["text"].as_str()?.parse().ok(),
        "fin" | "nzero" | "pinf" | "ninf" | "big" | "tiny" | "dec" => Some(num_of(obs)),
        _ => None,
    }
}

/// Does the observed value match the model's expectation?  Expectation classes "inexact" and "str1"
/// constrain only the kind (a number / a one-character string).
pub fn matches(exp: &J, obs: &J) -> bool {
    let et = exp["t"].as_str().unwrap_or("?");
    let ot = obs["t"].as_str().unwrap_or("?");
    match et {
        "str1" => ot == "str" && obs["s"].as_str().map_or(false, |s| concretise(s).chars().count() == 1),
        "num" => {
            if ot != "num" {
                return false;
            }
            match exp["c"].as_str().unwrap() {
                "inexact" => true,
                // a quotient the model knows only by its neighbours: the observed double must be that quotient
                "rat" => obs_f64(obs).map_or(false, |f| f == num_of(exp)),
                "fin" => obs["c"] == "fin" && obs["n"] == exp["n"],
                "big" | "tiny" | "dec" => obs["c"] == exp["c"] && obs["s"] == exp["s"] && obs["d"] == exp["d"],
                c => obs["c"] == c,
            }
        }
        "arr" => {
            if ot != "arr" {
                return false;
            }
            let (ea, oa) = (exp["a"].as_array().unwrap(), obs["a"].as_array().unwrap());
            let (ed, od) = (exp["d"].as_array().unwrap(), obs["d"].as_array().unwrap());
            ea.len() == oa.len()
                && ed.len() == od.len()
                && ea.iter().zip(oa).all(|(e, o)| matches(e, o))
                && ed.iter().zip(od).all(|(e, o)| e["k"] == o["k"] && matches(&e["v"], &o["v"]))
        }
        "str" => ot == "str" && exp["s"] == obs["s"],
        "bool" => ot == "bool" && exp["b"] == obs["b"],
        "myst" | "null" => et == ot,
        _ => false,
    }
}

/// Bit-level equality of two observed values (used for "the copy is unchanged"): NaN equals NaN,
/// 0 differs from -0.
pub fn same(a: &Val, b: &Val) -> bool {
    from_val(a) == from_val(b)
}
