//! Running a program on the real interpreter with instrumented streams and the state-snapshot sink.

use rrss::exec::{exec_using, RuntimeError};
use rrss::frontend::ast::Program;
use rrss::verif::{EntrySnapshot, StmtEvent};
use serde_json::{json, Value as J};
use std::cell::RefCell;
use std::io::{self, Read, Write};
use std::panic::{catch_unwind, AssertUnwindSafe};
use std::rc::Rc;

use crate::jv;

#[derive(Debug, Clone)]
pub enum Ev {
    Stmt(StmtEvent),
    /// bytes accepted by the writer in one call
    Write(Vec<u8>),
    WriteFail,
    /// bytes handed out by the reader in one call (empty = end of input)
    Read(Vec<u8>),
    ReadFail,
}

pub type Log = Rc<RefCell<Vec<Ev>>>;

/// Hands out one recorded chunk per `read` call (a chunk is whatever one call of the underlying stream returns: a whole
/// line, a piece of a line, several lines); call number `fail_at` (1-based) and all later calls fail.
pub struct LineReader {
    chunks: std::collections::VecDeque<Vec<u8>>,
    calls: usize,
    fail_at: Option<usize>,
    log: Log,
}
impl Read for LineReader {
    fn read(&mut self, buf: &mut [u8]) -> io::Result<usize> {
        self.calls += 1;
        if Some(self.calls) == self.fail_at || self.fail_at.map_or(false, |k| self.calls > k) {
            self.log.borrow_mut().push(Ev::ReadFail);
            return Err(io::Error::new(io::ErrorKind::Other, "injected read fault"));
        }
        let mut chunk = self.chunks.pop_front().unwrap_or_default();
        let n = chunk.len().min(buf.len());
        buf[..n].copy_from_slice(&chunk[..n]);
        if n < chunk.len() {
            self.chunks.push_front(chunk.split_off(n));
        }
        self.log.borrow_mut().push(Ev::Read(chunk[..n].to_vec()));
        Ok(n)
    }
}

/// Accepts `budget` bytes in total; a call that cannot place a single byte fails (the kind of the I/O error varies with the
/// budget: a broken pipe is as much a fault as any other).  Like any `Write`, it may take only part of a buffer: without a
/// budget every other call is a short write of 1, 5 or 2 bytes.
pub struct BudgetWriter {
    budget: Option<usize>,
    initial: usize,
    calls: usize,
    log: Log,
}
const FAULT_KINDS: [io::ErrorKind; 5] =
    [io::ErrorKind::BrokenPipe, io::ErrorKind::Other, io::ErrorKind::WouldBlock, io::ErrorKind::UnexpectedEof, io::ErrorKind::PermissionDenied];
impl Write for BudgetWriter {
    fn write(&mut self, buf: &[u8]) -> io::Result<usize> {
        self.calls += 1;
        let n = match self.budget {
            None => [usize::MAX, 1, usize::MAX, 5, usize::MAX, 2][self.calls % 6].min(buf.len()),
            Some(b) => b.min(buf.len()),
        };
        if n == 0 && !buf.is_empty() {
            self.log.borrow_mut().push(Ev::WriteFail);
            return Err(io::Error::new(FAULT_KINDS[self.initial % FAULT_KINDS.len()], "injected write fault"));
        }
        if let Some(b) = self.budget.as_mut() {
            *b -= n;
        }
        self.log.borrow_mut().push(Ev::Write(buf[..n].to_vec()));
        Ok(n)
    }
    fn flush(&mut self) -> io::Result<()> {
        Ok(())
    }
}

#[derive(Default, Clone)]
pub struct RunCfg {
    /// what successive `read` calls return
    pub input: Vec<Vec<u8>>,
    pub out_budget: Option<usize>,
    pub in_fail_at: Option<usize>,
    /// do not collect statement events (runs with very deep scope stacks)
    pub no_events: bool,
}

pub enum Outcome {
    Ok,
    Err(String),
    Panic(String),
}

pub struct RunObs {
    pub log: Vec<Ev>,
    pub outcome: Outcome,
}

impl RunObs {
    pub fn out_bytes(&self) -> Vec<u8> {
        let mut v = Vec::new();
        for e in &self.log {
            if let Ev::Write(b) = e {
                v.extend_from_slice(b)
            }
        }
        v
    }
    pub fn out_text(&self) -> String {
        String::from_utf8_lossy(&self.out_bytes()).into_owned()
    }
    pub fn last_stmt(&self) -> Option<&StmtEvent> {
        self.log.iter().rev().find_map(|e| match e {
            Ev::Stmt(s) => Some(s),
            _ => None,
        })
    }
    pub fn outcome_str(&self) -> String {
        match &self.outcome {
            Outcome::Ok => "ok".into(),
            Outcome::Err(m) => format!("err: {}", m),
            Outcome::Panic(m) => format!("PANIC: {}", m),
        }
    }
    pub fn is_panic(&self) -> bool {
        matches!(self.outcome, Outcome::Panic(_))
    }
    pub fn is_err(&self) -> bool {
        matches!(self.outcome, Outcome::Err(_))
    }
    pub fn is_ok(&self) -> bool {
        matches!(self.outcome, Outcome::Ok)
    }
}

pub fn panic_msg(p: Box<dyn std::any::Any + Send>) -> String {
    if let Some(s) = p.downcast_ref::<&str>() {
        s.to_string()
    } else if let Some(s) = p.downcast_ref::<String>() {
        s.clone()
    } else {
        "panic".into()
    }
}

pub fn run(program: &Program, cfg: &RunCfg) -> RunObs {
    let log: Log = Rc::new(RefCell::new(Vec::new()));
    let reader = LineReader {
        chunks: cfg.input.iter().cloned().collect(),
        calls: 0,
        fail_at: cfg.in_fail_at,
        log: log.clone(),
    };
    let writer = BudgetWriter {
        budget: cfg.out_budget,
        initial: cfg.out_budget.unwrap_or(0),
        calls: 0,
        log: log.clone(),
    };
    let sink_log = log.clone();
    let no_events = cfg.no_events;
    let result = catch_unwind(AssertUnwindSafe(|| {
        if no_events {
            exec_using(reader, writer, program)
        } else {
            rrss::verif::with_sink(
                Box::new(move |ev| sink_log.borrow_mut().push(Ev::Stmt(ev))),
                || -> Result<(), RuntimeError> { exec_using(reader, writer, program) },
            )
        }
    }));
    let outcome = match result {
        Ok(Ok(())) => Outcome::Ok,
        // rendering the message is part of what must not panic
        Ok(Err(e)) => match catch_unwind(AssertUnwindSafe(|| e.to_string())) {
            Ok(m) => Outcome::Err(m),
            Err(p) => Outcome::Panic(format!("while rendering the runtime error: {}", panic_msg(p))),
        },
        Err(p) => Outcome::Panic(panic_msg(p)),
    };
    let log = log.borrow().clone();
    RunObs { log, outcome }
}

/// Variable value in the outermost scope that has it (search innermost first), by case-folded simple name.
pub fn lookup_simple<'a>(ev: &'a StmtEvent, name: &str) -> Option<&'a EntrySnapshot> {
    use rrss::frontend::ast::VariableName;
    for scope in ev.scopes.iter().rev() {
        for (k, e) in scope {
            if let VariableName::Simple(s) = k {
                if s.0 == name {
                    return Some(e);
                }
            }
        }
    }
    None
}

pub fn name_json(n: &rrss::frontend::ast::VariableName) -> J {
    use rrss::frontend::ast::VariableName;
    match n {
        VariableName::Simple(s) => json!(["simple", s.0.to_lowercase()]),
        VariableName::Common(c) => json!(["common", c.0.to_lowercase(), c.1.to_lowercase()]),
        VariableName::Proper(p) => {
            let mut v = vec![J::from("proper")];
            v.extend(p.0.iter().map(|w| J::from(w.to_lowercase())));
            J::Array(v)
        }
    }
}

/// The snapshot in the model's schema: scopes outermost first, entries sorted by key.
pub fn stmt_json(ev: &StmtEvent) -> J {
    let scopes: Vec<J> = ev
        .scopes
        .iter()
        .map(|scope| {
            let mut es: Vec<(String, J)> = scope
                .iter()
                .map(|(k, e)| {
                    let key = name_json(k);
                    let ej = match e {
                        EntrySnapshot::Var(v) => json!({"key": key, "var": jv::from_val(v)}),
                        EntrySnapshot::Func { arity } => json!({"key": key, "func": arity}),
                    };
                    (key.to_string(), ej)
                })
                .collect();
            es.sort_by(|a, b| a.0.cmp(&b.0));
            J::Array(es.into_iter().map(|x| x.1).collect())
        })
        .collect();
    json!({
        "line": ev.line,
        "cf": ev.control_flow,
        "scopes": scopes,
        "last": ev.last_access.as_ref().map(name_json),
    })
}
