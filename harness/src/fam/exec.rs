//! Family `exec`: a complete run of the abstract machine (Interp.tla) replayed on the real interpreter:
//! bytes written, read calls issued, outcome, and the abstract state after every completed statement.

use serde_json::{json, Value as J};

use crate::astjson::{Builder, Naming};
use crate::exec::{self, Ev, RunCfg};
use crate::jv;
use crate::Verdict;

fn scope_matches(exp: &J, obs: &J) -> Result<(), String> {
    // model: object name -> {"var": value} | {"func": arity}   (or [] for an empty scope)
    // observed: array of {"key": ["simple", name], "var": value} | {.., "func": arity}
    let empty = serde_json::Map::new();
    let em = exp.as_object().unwrap_or(&empty);
    let oa = obs.as_array().unwrap();
    if em.len() != oa.len() {
        return Err(format!("scope has {} entries, model has {}", oa.len(), em.len()));
    }
    for o in oa {
        let key = &o["key"];
        let name = match key[0].as_str() {
            Some("simple") => key[1].as_str().unwrap().to_string(),
            _ => key.to_string(),
        };
        let e = em.get(&name).ok_or_else(|| format!("unexpected entry {}", name))?;
        if let Some(ar) = e.get("func") {
            if o.get("func") != Some(ar) {
                return Err(format!("entry {}: model has a function of arity {}", name, ar));
            }
        } else if !o.get("var").map_or(false, |v| jv::matches(&e["var"], v)) {
            return Err(format!("entry {}: value {} differs from model {}", name, o.get("var").unwrap_or(&J::Null), e["var"]));
        }
    }
    Ok(())
}

pub fn event_matches(exp: &J, obs: &J) -> Result<(), String> {
    if exp["line"] != obs["line"] {
        return Err(format!("statement line {} where the model completes line {}", obs["line"], exp["line"]));
    }
    if exp["cf"] != obs["cf"] {
        return Err(format!("line {}: control-flow state {} (model {})", exp["line"], obs["cf"], exp["cf"]));
    }
    let (es, os) = (exp["scopes"].as_array().unwrap(), obs["scopes"].as_array().unwrap());
    if es.len() != os.len() {
        return Err(format!("line {}: {} scopes (model {})", exp["line"], os.len(), es.len()));
    }
    for (i, (e, o)) in es.iter().zip(os).enumerate() {
        scope_matches(e, o).map_err(|m| format!("line {}, scope {}: {}", exp["line"], i, m))?;
    }
    let el = exp["last"].as_array().and_then(|a| a.get(0)).and_then(|x| x.as_str());
    let ol = obs["last"].as_array().and_then(|a| a.get(1)).and_then(|x| x.as_str());
    if el != ol {
        return Err(format!("line {}: pronoun referent {:?} (model {:?})", exp["line"], ol, el));
    }
    Ok(())
}

pub fn run_cfg(rec: &J) -> RunCfg {
    let input: Vec<Vec<u8>> = rec["inp"].as_array().unwrap().iter().map(|c| jv::concretise(c.as_str().unwrap()).into_bytes()).collect();
    let budget = rec["budget"].as_i64().unwrap_or(-1);
    let fail_at = rec["failAt"].as_i64().unwrap_or(0);
    RunCfg {
        input,
        out_budget: if budget >= 0 { Some(budget as usize) } else { None },
        in_fail_at: if fail_at > 0 { Some(fail_at as usize) } else { None },
        no_events: rec["noevs"] == true,
    }
}

thread_local! {
    /// second pass of the renaming check: the accented letter pair of the name pool is concretised as another lower / upper case
    /// pair of two-byte letters (Greek sigma), not as e-acute / E-acute: names are compared letter by letter, whatever the alphabet
    static ALT_LETTERS: std::cell::Cell<bool> = std::cell::Cell::new(false);
}

pub fn concrete_name(j: &J) -> rrss::frontend::ast::VariableName {
    use crate::astb::{common, proper, simple};
    let conc = |w: &str| -> String {
        if ALT_LETTERS.with(|a| a.get()) {
            crate::fam::lex::concretise_src(&w.replace('~', "\u{1}\u{2}").replace('^', "\u{1}\u{3}")).replace("\u{1}\u{2}", "\u{3c3}").replace("\u{1}\u{3}", "\u{3a3}")
        } else {
            crate::fam::lex::concretise_src(w)
        }
    };
    let words: Vec<String> = j.as_array().unwrap()[1..].iter().map(|w| conc(w.as_str().unwrap())).collect();
    match j[0].as_str().unwrap() {
        "simple" => simple(&words[0]),
        "common" => common(&words[0], &words[1]),
        _ => proper(&words.iter().map(|s| s.as_str()).collect::<Vec<_>>()),
    }
}

pub fn naming_of(rec: &J) -> Naming {
    let mut naming = Naming::default();
    if let Some(m) = rec.get("naming").and_then(|n| n.as_object()) {
        for (abs, spellings) in m {
            naming.map.insert(abs.clone(), spellings.as_array().unwrap().iter().map(concrete_name).collect());
        }
    }
    naming
}

/// C15: the run under a renaming has the model's output, outcome and statement events (names are compared
/// through the case-folded key of the first spelling).
pub fn check_rename(rec: &J) -> Verdict {
    let st = rec["st"].as_str().unwrap();
    if st == "fuel" || st == "unspec" || st == "blowup" {
        return Verdict::skip("not in the specified region");
    }
    let naming = naming_of(rec);
    let program = Builder { naming: &naming }.program(&rec["prog"]);
    let obs = exec::run(&program, &run_cfg(rec));
    if obs.is_panic() {
        return Verdict::viol(format!("interpreter {}", obs.outcome_str()), J::Null);
    }
    if obs.is_ok() != (st == "ok") {
        return Verdict::viol(format!("renamed program: outcome {} where the model ends with `{}`", obs.outcome_str(), st), json!({"out": obs.out_text()}));
    }
    let out = jv::abstractise(&obs.out_text());
    if out != rec["out"].as_str().unwrap() {
        return Verdict::viol("renamed program: bytes written differ from the model".into(), json!({"out": out}));
    }
    // key -> abstract name
    let mut back = std::collections::HashMap::new();
    for (abs, v) in &naming.map {
        for n in v {
            back.insert(exec::name_json(n).to_string(), abs.clone());
        }
    }
    let evs: Vec<J> = obs.log.iter().filter_map(|e| match e { Ev::Stmt(s) => Some(exec::stmt_json(s)), _ => None }).collect();
    let exp = rec["evs"].as_array().unwrap();
    if exp.len() != evs.len() {
        return Verdict::viol(format!("renamed program: {} statements completed, model completes {}", evs.len(), exp.len()), J::Null);
    }
    for (i, (e, o)) in exp.iter().zip(&evs).enumerate() {
        // translate observed keys back to abstract simple names and reuse the plain comparison
        let mut o2 = o.clone();
        for scope in o2["scopes"].as_array_mut().unwrap() {
            for entry in scope.as_array_mut().unwrap() {
                let k = entry["key"].to_string();
                if let Some(abs) = back.get(&k) {
                    entry["key"] = json!(["simple", abs]);
                }
            }
        }
        if !o2["last"].is_null() {
            let k = o2["last"].to_string();
            if let Some(abs) = back.get(&k) {
                o2["last"] = json!(["simple", abs]);
            }
        }
        if let Err(m) = event_matches(e, &o2) {
            return Verdict::viol(format!("renamed program, statement event {}: {}", i + 1, m), json!({"event": o}));
        }
    }
    // the same renaming with the other pair of accented letters: output and outcome must be the same again
    if rec["naming"].to_string().contains('~') || rec["naming"].to_string().contains('^') {
        ALT_LETTERS.with(|a| a.set(true));
        let naming2 = naming_of(rec);
        let program2 = Builder { naming: &naming2 }.program(&rec["prog"]);
        ALT_LETTERS.with(|a| a.set(false));
        let obs2 = exec::run(&program2, &run_cfg(rec));
        if obs2.is_panic() {
            return Verdict::viol(format!("interpreter {} (names with Greek sigma for the accented letter)", obs2.outcome_str()), J::Null);
        }
        if obs2.is_ok() != (st == "ok") || jv::abstractise(&obs2.out_text()) != rec["out"].as_str().unwrap() {
            return Verdict::viol(format!("renamed program with Greek sigma / capital sigma for the accented letter pair: outcome {} , output differs or outcome differs from the model's `{}`", obs2.outcome_str(), st), json!({"out": obs2.out_text()}));
        }
    }
    Verdict::ok(true)
}

/// C10: repeated runs in this process and in a second process are byte-identical (output, outcome and the full
/// error text) and equal the model's single behaviour.
pub fn check_determ(rec: &J, helper: &mut Option<crate::Helper>) -> Verdict {
    let v = check(rec);
    if v.st != "ok" {
        return v;
    }
    let naming = Naming::default();
    let program = Builder { naming: &naming }.program(&rec["prog"]);
    let cfg = run_cfg(rec);
    let first = exec::run(&program, &cfg);
    let sig = |o: &exec::RunObs| (o.out_bytes(), o.outcome_str());
    let s0 = sig(&first);
    for k in 0..6 {
        let again = exec::run(&program, &cfg);
        if sig(&again) != s0 {
            return Verdict::viol(
                format!("run {} in the same process differs: `{}` / `{}` vs `{}` / `{}`", k + 2, again.out_text(), again.outcome_str(), first.out_text(), first.outcome_str()),
                J::Null,
            );
        }
    }
    let h = helper.get_or_insert_with(|| crate::Helper::spawn("outcome"));
    match h.ask(rec) {
        Some(other) => {
            if other["out"] != json!(first.out_text()) || other["outcome"] != json!(first.outcome_str()) {
                return Verdict::viol(format!("a second process gives `{}` / `{}` vs `{}` / `{}`", other["out"], other["outcome"], first.out_text(), first.outcome_str()), J::Null);
            }
        }
        None => return Verdict::viol("second process crashed on this program".into(), J::Null),
    }
    Verdict::ok(true)
}

/// helper family: just run and report (used by check_determ from another process)
pub fn outcome(rec: &J) -> Verdict {
    let naming = naming_of(rec);
    let program = Builder { naming: &naming }.program(&rec["prog"]);
    let obs = exec::run(&program, &run_cfg(rec));
    Verdict::ok_with(true, json!({"out": obs.out_text(), "outcome": obs.outcome_str()}))
}

pub fn check(rec: &J) -> Verdict {
    let st = rec["st"].as_str().unwrap();
    if st == "blowup" {
        return Verdict::skip("executing it needs unbounded time or memory");
    }
    if st == "fuel" {
        return Verdict::skip("model ran out of fuel: not executed");
    }
    let naming = Naming::default();
    let program = Builder { naming: &naming }.program(&rec["prog"]);
    let obs = exec::run(&program, &run_cfg(rec));
    if obs.is_panic() {
        return Verdict::viol(format!("interpreter {}", obs.outcome_str()), J::Null);
    }
    if st == "unspec" {
        return Verdict::ok_with(false, json!({"outcome": obs.outcome_str()}));
    }
    let want_ok = st == "ok";
    if obs.is_ok() != want_ok {
        return Verdict::viol(
            format!("outcome {} where the model ends with `{}`", obs.outcome_str(), st),
            json!({"out": obs.out_text()}),
        );
    }
    let out = jv::abstractise(&obs.out_text());
    if out != rec["out"].as_str().unwrap() {
        return Verdict::viol("bytes written differ from the model".into(), json!({"out": out}));
    }
    let reads = obs.log.iter().filter(|e| matches!(e, Ev::Read(_) | Ev::ReadFail)).count();
    if reads as u64 != rec["rd"].as_u64().unwrap() {
        return Verdict::viol(format!("{} read calls issued, model {}", reads, rec["rd"]), J::Null);
    }
    let evs: Vec<J> = obs
        .log
        .iter()
        .filter_map(|e| match e {
            Ev::Stmt(s) => Some(exec::stmt_json(s)),
            _ => None,
        })
        .collect();
    let exp = rec["evs"].as_array().unwrap();
    for (i, (e, o)) in exp.iter().zip(&evs).enumerate() {
        if let Err(m) = event_matches(e, o) {
            return Verdict::viol(format!("state after statement event {}: {}", i + 1, m), json!({"event": o}));
        }
    }
    if exp.len() != evs.len() {
        return Verdict::viol(
            format!("{} statements completed, model completes {}", evs.len(), exp.len()),
            json!({"lines": evs.iter().map(|e| e["line"].clone()).collect::<Vec<_>>()}),
        );
    }
    // Input characters have no meaning to the interpreter: the same run with another character in place of every e-acute of the input
    // (U+FEFF, which some tools strip from the start of a stream) must print the same text with that character in the same places.
    // Only where no byte budget is involved (the two characters differ in width).
    if rec["budget"].as_i64().unwrap_or(-1) < 0 && rec["failAt"].as_i64().unwrap_or(0) == 0 && rec["inp"].to_string().contains('~') {
        let mut cfg = run_cfg(rec);
        cfg.input = rec["inp"].as_array().unwrap().iter().map(|c| c.as_str().unwrap().replace('~', "\u{feff}").into_bytes()).collect();
        cfg.no_events = true;
        let obs2 = exec::run(&program, &cfg);
        if obs2.is_panic() {
            return Verdict::viol(format!("interpreter {} (input with U+FEFF in place of the accented letter)", obs2.outcome_str()), J::Null);
        }
        let out2 = obs2.out_text().replace('\u{feff}', "~");
        if obs2.is_ok() != want_ok || out2 != rec["out"].as_str().unwrap() {
            return Verdict::viol("the same input with U+FEFF in place of every e-acute gives another run (a character of the input is treated specially)".into(), json!({"out": out2, "outcome": obs2.outcome_str()}));
        }
    }
    Verdict::ok(exp.len() > 1)
}
