//! Recorder for InterpTrace: seeded random programs (far larger than the enumerated families: 20-120 statements,
//! nesting depth 4, functions, arrays, I/O) run on the real interpreter; the program (in the model's tree schema), the
//! input and everything observed are written as one ndjson line per run, for TLC to validate against Interp.tla.

use rand::rngs::StdRng;
use rand::{Rng, SeedableRng};
use serde_json::{json, Value as J};
use std::io::Write;

use crate::astjson::{Builder, Naming};
use crate::exec::{self, Ev, RunCfg};
use crate::jv;

struct Gen {
    rng: StdRng,
    line: u32,
    loop_id: u32,
    budget: i32,
    /// calls are only generated outside function bodies (no unbounded recursion)
    calls_ok: bool,
}

const VARS: &[&str] = &["a", "b", "c", "d", "e"];
const FUNS: &[&str] = &["f", "g"];

fn lit_num(k: i64) -> J {
    json!({"e":"lit","v":{"t":"num","c":"fin","n":k * 64}})
}
fn lit_str(s: &str) -> J {
    json!({"e":"lit","v":{"t":"str","s":s}})
}
fn var(n: &str) -> J {
    json!({"e":"var","n":n})
}

impl Gen {
    fn pick<'a>(&mut self, xs: &'a [&'a str]) -> &'a str {
        xs[self.rng.gen_range(0..xs.len())]
    }
    fn atom(&mut self) -> J {
        match self.rng.gen_range(0..14) {
            // fractions, a decimal outside the fixed-point band, a negative number, negative zero
            12 => [json!({"e":"lit","v":{"t":"num","c":"fin","n":32}}), json!({"e":"lit","v":{"t":"num","c":"dec","s":1,"d":"0.26"}}),
                   json!({"e":"lit","v":{"t":"num","c":"fin","n":-128}}), json!({"e":"lit","v":{"t":"num","c":"nzero"}}),
                   json!({"e":"lit","v":{"t":"num","c":"fin","n":96}})][self.rng.gen_range(0..5)].clone(),
            // the pronoun: whatever was named last (an error when nothing was, e.g. right after a block)
            13 => if self.rng.gen_bool(0.12) { json!({"e":"pro"}) } else { lit_num(7) },
            // arrays and strings are never copied into themselves (doubling in nested loops is a resource question)
            0..=3 => var(self.pick(&["a", "d", "e", "a", "d", "e", "b"])),
            4..=6 => lit_num(self.rng.gen_range(0..6)),
            7 => lit_str(["s", "t", "", "a,b"][self.rng.gen_range(0..4)]),
            8 => json!({"e":"lit","v":{"t":"bool","b":self.rng.gen_bool(0.5)}}),
            9 => json!({"e":"lit","v":{"t":"null"}}),
            10 => var(self.pick(&["a", "d"])),
            _ => json!({"e":"lit","v":{"t":"myst"}}),
        }
    }
    fn num_atom(&mut self) -> J {
        match self.rng.gen_range(0..6) {
            0 | 1 => var(self.pick(&["a", "d"])),
            2 => {
                let n: i64 = [32, -128, 96, 0][self.rng.gen_range(0..4)];
                json!({"e":"lit","v":{"t":"num","c":"fin","n":n}})
            }
            3 => json!({"e":"lit","v":{"t":"num","c":"dec","s":1,"d":"0.26"}}),
            _ => lit_num(self.rng.gen_range(0..6)),
        }
    }
    fn expr(&mut self, depth: u32) -> J {
        if depth == 0 || self.rng.gen_bool(0.35) {
            return self.atom();
        }
        match self.rng.gen_range(0..10) {
            0..=4 => {
                // no multiplication: string x number repetition inside loops is a resource question, not a semantic one
                let op = ["plus", "minus", "minus", "eq", "ne", "lt", "ge", "and", "or", "nor", "gt", "le"][self.rng.gen_range(0..12)];
                let n = if self.rng.gen_bool(0.2) { 2 } else { 1 };
                // ordering and subtraction want numbers on both sides: mostly give them numbers, so that runs go on
                if matches!(op, "lt" | "ge" | "gt" | "le" | "minus") && self.rng.gen_bool(0.95) {
                    let r: Vec<J> = (0..n).map(|_| self.num_atom()).collect();
                    return json!({"e":"bin","op":op,"l":self.num_atom(),"r":r});
                }
                let r: Vec<J> = (0..n).map(|_| self.expr(depth - 1)).collect();
                json!({"e":"bin","op":op,"l":self.expr(depth - 1),"r":r})
            }
            5 => if self.rng.gen_bool(0.7) { json!({"e":"un","op":"not","x":self.expr(depth - 1)}) } else { json!({"e":"un","op":"neg","x":self.num_atom()}) },
            // mostly the variables that hold arrays (c: queue, z: pieces of a cut string); now and then anything
            6 => json!({"e":"idx","a":var(if self.rng.gen_bool(0.93) { self.pick(&["c", "c", "z"]) } else { self.pick(VARS) }),"k": if self.rng.gen_bool(0.7) { lit_num(self.rng.gen_range(0..3)) } else { lit_str("k") }}),
            7 if self.calls_ok => {
                let f = self.pick(FUNS);
                let n = if f == "f" { 1 } else { 2 };
                let args: Vec<J> = (0..n).map(|_| self.expr(depth - 1)).collect();
                json!({"e":"call","f":f,"args":args})
            }
            8 => json!({"e":"roll","a":var(self.pick(&["c", "c", "c", "c", "c", "c", "c", "c", "c", "c", "c", "c", "c", "c", "c", "c", "c", "c", "c", "a"]))}),
            _ => self.atom(),
        }
    }
    fn lhs(&mut self) -> J {
        match self.rng.gen_range(0..6) {
            0..=3 => var(self.pick(VARS)),
            4 => json!({"e":"idx","a":var(self.pick(VARS)),"k": if self.rng.gen_bool(0.6) { lit_num(self.rng.gen_range(0..3)) } else { lit_str("k") }}),
            _ => json!({"e":"pro"}),
        }
    }
    fn next_line(&mut self) -> u32 {
        self.line += 1;
        self.line
    }
    fn block(&mut self, depth: u32, max: usize, in_loop: bool, in_fn: bool) -> Vec<J> {
        let n = self.rng.gen_range(0..=max);
        (0..n).map(|_| self.stmt(depth, in_loop, in_fn)).collect()
    }
    fn stmt(&mut self, depth: u32, in_loop: bool, in_fn: bool) -> J {
        self.budget -= 1;
        let l = self.next_line();
        let none = json!({"e":"none"});
        let k = if self.budget <= 0 || depth == 0 { self.rng.gen_range(0..12) } else { self.rng.gen_range(0..18) };
        match k {
            0 | 1 => json!({"s":"say","line":l,"e":self.expr(2)}),
            2 | 3 => {
                // a and d stay numbers, b a string, c an array (so that most runs continue); e and subscripts take anything
                let (dest, val) = match self.rng.gen_range(0..6) {
                    0 | 1 => {
                        let op = ["plus", "minus"][self.rng.gen_range(0..2)];
                        (var(self.pick(&["a", "d"])), json!({"e":"bin","op":op,"l":var(self.pick(&["a", "d"])),"r":[lit_num(self.rng.gen_range(0..4))]}))
                    }
                    2 => (var("b"), json!({"e":"bin","op":"plus","l":var("b"),"r":[lit_str(["x", "1", ","][self.rng.gen_range(0..3)])]})),
                    3 => (json!({"e":"idx","a":var("c"),"k": if self.rng.gen_bool(0.6) { lit_num(self.rng.gen_range(0..4)) } else { lit_str("k") }}), self.expr(2)),
                    _ => (var("e"), self.expr(3)),
                };
                json!({"s":"assign","line":l,"dest":dest,"op":"none","vals":[val]})
            }
            4 => {
                let op = ["plus", "minus", "plus"][self.rng.gen_range(0..3)];
                let n = if self.rng.gen_bool(0.3) { 2 } else { 1 };
                // a and d stay numbers: numeric operands for them; e takes anything
                let dest = self.pick(&["a", "d", "e"]);
                let vals: Vec<J> = (0..n).map(|_| if dest == "e" || self.rng.gen_bool(0.03) { self.expr(1) } else { self.num_atom() }).collect();
                json!({"s":"assign","line":l,"dest":var(dest),"op":op,"vals":vals})
            }
            5 => json!({"s": if self.rng.gen_bool(0.5) {"inc"} else {"dec"},"line":l,"dest": if self.rng.gen_bool(0.9) { var(self.pick(&["a", "d", "a", "a", "d", "a", "d", "a", "a", "d", "a", "d", "a", "a", "d", "a", "d", "e", "a", "d", "a", "d", "a", "a", "d", "a", "d", "a", "a", "d", "a", "d", "a", "a", "d", "a", "d", "e", "a", "d", "b"])) } else { json!({"e":"pro"}) },"n":self.rng.gen_range(1..3)}),
            6 => {
                let n = self.rng.gen_range(0..3);
                let vals: Vec<J> = (0..n).map(|_| self.expr(1)).collect();
                json!({"s":"rock","line":l,"a":var(self.pick(&["c", "c", "c", "e"])),"vals":vals})
            }
            7 => json!({"s":"rollst","line":l,"a":var(self.pick(&["c", "c", "c", "c", "c", "c", "c", "c", "c", "c", "c", "c", "c", "c", "c", "c", "c", "c", "c", "c", "c", "c", "c", "c", "a"])),"dest": if self.rng.gen_bool(0.6) { var(self.pick(&["e", "e", "e", "e", "e", "e", "e", "e", "e", "e", "e", "e", "e", "e", "e", "e", "e", "e", "e", "a"])) } else { none }}),
            8 => json!({"s":"listen","line":l,"dest": if self.rng.gen_bool(0.7) { var(self.pick(&["b", "e"])) } else { none }}),
            9 => {
                let t = ["x y", "a,b", ""][self.rng.gen_range(0..3)];
                json!({"s":"pstr","line":l,"dest":var(self.pick(&["b", "e"])),"str":t})
            }
            10 => {
                if in_loop && self.rng.gen_bool(0.7) {
                    json!({"s": if self.rng.gen_bool(0.5) {"break"} else {"continue"},"line":l})
                } else if in_fn {
                    json!({"s":"return","line":l,"e":self.expr(2)})
                } else {
                    json!({"s":"say","line":l,"e":self.atom()})
                }
            }
            11 => {
                let op = ["cut", "join", "cast"][self.rng.gen_range(0..3)];
                let with_dest = self.rng.gen_bool(0.5);
                let operand = match op { "cut" => "b", "join" => if self.rng.gen_bool(0.97) { "z" } else { "c" }, _ => if self.rng.gen_bool(0.97) { "a" } else { "e" } };
                let with_dest = with_dest || op != "cast";
                // cut b (a string) into z (an array of strings), join z into y, cast a (a number) into y: each variable keeps its kind
                let dest = if op == "cut" { "z" } else { "y" };
                let param = if op != "cast" || self.rng.gen_bool(0.03) { if self.rng.gen_bool(0.4) { lit_str(",") } else { none.clone() } } else { none.clone() };
                json!({"s":"mut","line":l,"op":op,"operand":var(operand),"dest": if with_dest { var(dest) } else { none.clone() },
                       "param": param})
            }
            12 | 13 => {
                let c = self.expr(2);
                let th = self.block(depth - 1, 3, in_loop, in_fn);
                let has_else = self.rng.gen_bool(0.5);
                let el = if has_else { self.block(depth - 1, 3, in_loop, in_fn) } else { vec![] };
                json!({"s":"if","line":l,"c":c,"th":th,"hasElse":has_else,"el":el})
            }
            14 | 15 => {
                // a counter-driven loop: the counter is built up first, so it terminates whatever the body does
                self.loop_id += 1;
                let ctr = format!("n{}", "x".repeat(self.loop_id as usize % 4 + 1));
                let bound = self.rng.gen_range(1..4);
                let l2 = self.next_line();
                let mut body = vec![json!({"s":"inc","line":l2,"dest":var(&ctr),"n":1})];
                body.extend(self.block(depth - 1, 4, true, in_fn));
                let wh = self.rng.gen_bool(0.5);
                let cond = if wh {
                    json!({"e":"bin","op":"lt","l":var(&ctr),"r":[lit_num(bound)]})
                } else {
                    json!({"e":"bin","op":"ge","l":var(&ctr),"r":[lit_num(bound)]})
                };
                // the counter is (re)initialised by an assignment the caller places before the loop: emit it as part of an if(true)
                let l3 = self.next_line();
                json!({"s":"if","line":l,"c":{"e":"lit","v":{"t":"bool","b":true}},"hasElse":false,"el":[],
                       "th":[{"s":"assign","line":l3,"dest":var(&ctr),"op":"none","vals":[lit_num(0)]},
                             {"s": if wh {"while"} else {"until"},"line":l3 + 1000,"c":cond,"body":body}]})
            }
            16 if self.calls_ok => {
                let f = self.pick(FUNS);
                let n = if f == "f" { 1 } else { 2 };
                let args: Vec<J> = (0..n).map(|_| self.expr(1)).collect();
                json!({"s":"callst","line":l,"f":f,"args":args})
            }
            _ => {
                let d = ["up", "down", "nearest"][self.rng.gen_range(0..3)];
                json!({"s":"turn","line":l,"dir":d,"e":var(self.pick(&["a", "d", "a", "d", "a", "d", "a", "d", "a", "d", "a", "d", "a", "d", "a", "d", "a", "d", "a", "d", "a", "d", "a", "d", "b"]))})
            }
        }
    }
    fn program(&mut self, size: i32) -> J {
        self.line = 0;
        self.budget = size;
        let l1 = self.next_line();
        self.calls_ok = false;
        let fbody = self.block(2, 4, false, true);
        let l2 = self.next_line();
        let gbody = self.block(2, 4, false, true);
        self.calls_ok = true;
        let l3 = self.next_line();
        let mut blocks = vec![json!([
            {"s":"func","line":l1,"name":"f","ps":["p"],"body":fbody},
            {"s":"func","line":l2,"name":"g","ps":["p","q"],"body":gbody},
            {"s":"assign","line":l3,"dest":var("a"),"op":"none","vals":[lit_num(1)]},
            {"s":"assign","line":l3 + 1,"dest":var("b"),"op":"none","vals":[lit_str("s,t")]},
            {"s":"rock","line":l3 + 2,"a":var("c"),"vals":[lit_num(1), lit_num(2), lit_str("x")]},
            {"s":"assign","line":l3 + 3,"dest":var("d"),"op":"none","vals":[lit_num(0)]},
            {"s":"assign","line":l3 + 4,"dest":var("e"),"op":"none","vals":[{"e":"lit","v":{"t":"bool","b":true}}]},
            {"s":"mut","line":l3 + 5,"op":"cut","operand":var("b"),"dest":var("z"),"param":lit_str(",")},
        ])];
        self.line += 6;
        while self.budget > 0 {
            let b = self.block(3, 8, false, false);
            if !b.is_empty() {
                blocks.push(J::Array(b));
            }
        }
        J::Array(blocks)
    }
}

/// A one-character string outside the model's alphabet (TLC reads a non-ASCII character as several `?`) is recorded as what the
/// model calls it: {"t":"str1"}, some one-character string.
fn trace_val(j: J) -> J {
    match j {
        J::Object(mut m) => {
            if m.get("t").and_then(|t| t.as_str()) == Some("str") {
                let s = m["s"].as_str().unwrap_or("");
                let mut cs = s.chars();
                if let (Some(c), None) = (cs.next(), cs.next()) {
                    if !c.is_ascii() {
                        return json!({"t":"str1"});
                    }
                }
                return J::Object(m);
            }
            for (_, v) in m.iter_mut() {
                *v = trace_val(v.take());
            }
            J::Object(m)
        }
        J::Array(a) => J::Array(a.into_iter().map(trace_val).collect()),
        x => x,
    }
}

/// the observed statement event in the model's snapshot schema
fn event_model_schema(ev: &rrss::verif::StmtEvent) -> J {
    use rrss::frontend::ast::VariableName;
    let name = |n: &VariableName| crate::astout::canon_name(n);
    let scopes: Vec<J> = ev
        .scopes
        .iter()
        .map(|scope| {
            if scope.is_empty() {
                json!([])
            } else {
                let mut m = serde_json::Map::new();
                for (k, e) in scope {
                    m.insert(
                        name(k),
                        match e {
                            rrss::verif::EntrySnapshot::Var(v) => json!({"var": trace_val(jv::from_val(v))}),
                            rrss::verif::EntrySnapshot::Func { arity } => json!({"func": arity}),
                        },
                    );
                }
                J::Object(m)
            }
        })
        .collect();
    json!({"line": ev.line, "cf": ev.control_flow, "scopes": scopes,
           "last": ev.last_access.as_ref().map_or(json!([]), |n| json!([name(n)]))})
}

fn run_one(prog: &J, inp: &[&str]) -> String {
    let naming = Naming::default();
    let program = Builder { naming: &naming }.program(prog);
    run_program(&program, prog, inp, None)
}

/// run `program` (whose tree in the model's schema is `prog`) and describe the run as one trace line
fn run_program(program: &rrss::frontend::ast::Program, prog: &J, inp: &[&str], file: Option<&str>) -> String {
    let cfg = RunCfg { input: inp.iter().map(|c| c.as_bytes().to_vec()).collect(), out_budget: None, in_fail_at: None, no_events: false };
    let obs = exec::run(&program, &cfg);
    let evs: Vec<J> = obs.log.iter().filter_map(|e| match e { Ev::Stmt(s) => Some(event_model_schema(s)), _ => None }).collect();
    let reads = obs.log.iter().filter(|e| matches!(e, Ev::Read(_) | Ev::ReadFail)).count();
    let st = if obs.is_panic() { "panic" } else if obs.is_ok() { "ok" } else { "err" };
    json!({"prog": prog, "inp": inp, "st": st, "out": jv::abstractise(&obs.out_text()), "rd": reads, "evs": evs, "outcome": obs.outcome_str(),
           "file": file.unwrap_or("")}).to_string()
}

fn run_in_child(prog: &J, inp: &[&str]) -> Option<String> {
    in_child(|| run_one(prog, inp))
}

fn in_child(run: impl FnOnce() -> String) -> Option<String> {
    use std::os::unix::io::FromRawFd;
    let mut fds = [0i32; 2];
    unsafe {
        if libc::pipe(fds.as_mut_ptr()) != 0 {
            return Some(run());
        }
        let pid = libc::fork();
        if pid == 0 {
            libc::close(fds[0]);
            let lim = libc::rlimit { rlim_cur: 2 << 30, rlim_max: 2 << 30 };
            libc::setrlimit(libc::RLIMIT_AS, &lim);
            libc::alarm(20);
            let line = run();
            let mut w = std::fs::File::from_raw_fd(fds[1]);
            let _ = w.write_all(line.as_bytes());
            drop(w);
            libc::_exit(0);
        }
        libc::close(fds[1]);
        let mut r = std::fs::File::from_raw_fd(fds[0]);
        let mut buf = String::new();
        let _ = std::io::Read::read_to_string(&mut r, &mut buf);
        let mut status = 0;
        libc::waitpid(pid, &mut status, 0);
        if libc::WIFEXITED(status) && libc::WEXITSTATUS(status) == 0 && !buf.is_empty() {
            Some(buf)
        } else {
            None
        }
    }
}

pub fn record(args: &[String]) -> i32 {
    let mut seed = 1u64;
    let mut n = 50usize;
    let mut maxlen = 60usize;
    let mut out = None;
    let mut i = 0;
    while i < args.len() {
        match args[i].as_str() {
            "--seed" => { seed = args[i + 1].parse().unwrap(); i += 1 }
            "--n" => { n = args[i + 1].parse().unwrap(); i += 1 }
            "--maxlen" => { maxlen = args[i + 1].parse().unwrap(); i += 1 }
            "--out" => { out = Some(args[i + 1].clone()); i += 1 }
            a => { eprintln!("unknown option {}", a); return 2 }
        }
        i += 1;
    }
    let mut g = Gen { rng: StdRng::seed_from_u64(seed), line: 0, loop_id: 0, budget: 0, calls_ok: true };
    let mut f = std::fs::File::create(out.expect("--out required")).expect("cannot create trace file");
    let inputs: [&[&str]; 4] = [&[], &["l1\n", "l2\n", "l3"], &["\n", "x\n"], &["5\n", "a,b\n", "t\n", "u\n", "v\n"]];
    let mut skipped = 0;
    for _ in 0..n {
        let size = g.rng.gen_range(10..=maxlen as i32);
        let prog = g.program(size);
        let inp = inputs[g.rng.gen_range(0..inputs.len())];
        // each program runs in a forked child with an address-space limit and a watchdog: a program that needs unbounded
        // memory, time or stack is outside every property and is simply not recorded
        match run_in_child(&prog, inp) {
            Some(line) => writeln!(f, "{}", line).unwrap(),
            None => skipped += 1,
        }
    }
    if skipped > 0 {
        eprintln!("{} programs skipped (resource limits)", skipped);
    }
    0
}


/// The trees of the corpus programs as the REAL parser builds them, in the model's schema (canonical names, physical lines): input of
/// MC_Lint's corpus kinds, which apply Lint.tla and Visitor.tla to them.
pub fn record_corpus_trees(args: &[String]) -> i32 {
    let mut dir = None;
    let mut out = None;
    let mut i = 0;
    while i < args.len() {
        match args[i].as_str() {
            "--dir" => { dir = Some(args[i + 1].clone()); i += 1 }
            "--out" => { out = Some(args[i + 1].clone()); i += 1 }
            a => { eprintln!("unknown option {}", a); return 2 }
        }
        i += 1;
    }
    let mut f = std::fs::File::create(out.expect("--out required")).expect("cannot create output file");
    let mut files: Vec<_> = std::fs::read_dir(dir.expect("--dir required")).expect("corpus directory").filter_map(|e| e.ok()).map(|e| e.path())
        .filter(|p| p.extension().map_or(false, |x| x == "rock")).collect();
    files.sort();
    let in_alphabet = |s: &str| s.chars().all(|c| (c.is_ascii() && c != '~' && (c == '\n' || c == '\t' || !c.is_ascii_control())) || c == '\u{e9}');
    let mut n = 0;
    for path in files {
        let stem = path.file_stem().unwrap().to_string_lossy().to_string();
        let text = std::fs::read_to_string(&path).unwrap_or_default();
        if !in_alphabet(&text) {
            continue;
        }
        if let Ok(Ok(program)) = std::panic::catch_unwind(|| rrss::frontend::parser::parse(&text)) {
            let back = std::collections::HashMap::new();
            let prog = crate::astout::Out { back: &back, corpus: true }.program(&program);
            writeln!(f, "{}", json!({"file": stem, "prog": prog})).unwrap();
            n += 1;
        }
    }
    eprintln!("{} trees written", n);
    0
}

/// Recorder for the program corpus (`/verif/corpus/*.rock` with `.in`): the programs of the repository's own integration tests, parsed
/// by the real parser, run on the real interpreter with the snapshot hook, one trace line per program for InterpTrace.
/// A text outside the model's alphabet (non-ASCII other than U+00E9, or the place-holder `~` itself) or one the parser rejects is skipped.
pub fn record_corpus(args: &[String]) -> i32 {
    let mut dir = None;
    let mut out = None;
    let mut i = 0;
    while i < args.len() {
        match args[i].as_str() {
            "--dir" => { dir = Some(args[i + 1].clone()); i += 1 }
            "--out" => { out = Some(args[i + 1].clone()); i += 1 }
            a => { eprintln!("unknown option {}", a); return 2 }
        }
        i += 1;
    }
    let dir = dir.expect("--dir required");
    let mut f = std::fs::File::create(out.expect("--out required")).expect("cannot create trace file");
    let mut files: Vec<_> = std::fs::read_dir(&dir).expect("corpus directory").filter_map(|e| e.ok()).map(|e| e.path())
        .filter(|p| p.extension().map_or(false, |x| x == "rock")).collect();
    files.sort();
    let in_alphabet = |s: &str| s.chars().all(|c| (c.is_ascii() && c != '~' && (c == '\n' || c == '\t' || !c.is_ascii_control())) || c == '\u{e9}');
    let (mut recorded, mut skipped) = (0, Vec::new());
    for path in files {
        let stem = path.file_stem().unwrap().to_string_lossy().to_string();
        let text = std::fs::read_to_string(&path).unwrap_or_default();
        let input = std::fs::read_to_string(path.with_extension("in")).unwrap_or_default();
        if !in_alphabet(&text) || !in_alphabet(&input) {
            skipped.push(format!("{}: outside the model alphabet", stem));
            continue;
        }
        let program = match std::panic::catch_unwind(|| rrss::frontend::parser::parse(&text)) {
            Ok(Ok(p)) => p,
            _ => { skipped.push(format!("{}: not accepted by the parser", stem)); continue }
        };
        let back = std::collections::HashMap::new();
        let prog = crate::astout::Out { back: &back, corpus: true }.program(&program);
        let chunks: Vec<&str> = input.split_inclusive('\n').collect();
        let abs_chunks: Vec<String> = chunks.iter().map(|c| jv::abstractise(c)).collect();
        let line = in_child(|| {
            let l = run_program(&program, &prog, &chunks, Some(&stem));
            // the recorded input is in the model's alphabet
            let mut j: J = serde_json::from_str(&l).unwrap();
            j["inp"] = json!(abs_chunks);
            j.to_string()
        });
        match line {
            Some(l) => { writeln!(f, "{}", l).unwrap(); recorded += 1 }
            None => skipped.push(format!("{}: resource limits", stem)),
        }
    }
    eprintln!("{} programs recorded, {} skipped", recorded, skipped.len());
    for s in skipped {
        eprintln!("skipped {}", s);
    }
    0
}
