pub mod table;

use crate::Verdict;
use serde_json::Value as J;

pub fn check(family: &str, rec: &J) -> Verdict {
    match family {
        "table" => table::check(rec),
        _ => Verdict {
            st: "toolerr",
            nontrivial: false,
            msg: format!("unknown family {}", family),
            obs: J::Null,
        },
    }
}

pub fn record(family: &str, _args: &[String]) -> i32 {
    eprintln!("no recorder for family {}", family);
    2
}
