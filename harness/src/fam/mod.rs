pub mod lex;
pub mod lexrec;
pub mod table;

use crate::Verdict;
use serde_json::Value as J;

pub fn check(family: &str, rec: &J) -> Verdict {
    match family {
        "table" => table::check(rec),
        "lex" => lex::check_lex(rec),
        "total" => lex::check_total(rec),
        _ => Verdict {
            st: "toolerr",
            nontrivial: false,
            msg: format!("unknown family {}", family),
            obs: J::Null,
        },
    }
}

pub fn record(family: &str, args: &[String]) -> i32 {
    std::panic::set_hook(Box::new(|_| {}));
    match family {
        "lex" => lexrec::record(args),
        _ => {
            eprintln!("no recorder for family {}", family);
            2
        }
    }
}
