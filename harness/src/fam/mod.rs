pub mod cli;
pub mod exec;
pub mod interprec;
pub mod lex;
pub mod lexrec;
pub mod lint;
pub mod syntax;
pub mod table;

use crate::Verdict;
use serde_json::Value as J;

thread_local! {
    static HELPER: std::cell::RefCell<Option<crate::Helper>> = std::cell::RefCell::new(None);
}

pub fn check(family: &str, rec: &J) -> Verdict {
    match family {
        "rename" => exec::check_rename(rec),
        "outcome" => exec::outcome(rec),
        "determ" => HELPER.with(|h| exec::check_determ(rec, &mut h.borrow_mut())),
        "table" => table::check(rec),
        "lex" => lex::check_lex(rec),
        "syntax" => syntax::check(rec),
        "textoutcome" => syntax::text_outcome(rec),
        "dettext" => HELPER.with(|h| syntax::check_dettext(rec, &mut h.borrow_mut())),
        "verdict" => syntax::check_verdict(rec),
        "e2e" => syntax::check_e2e(rec),
        "fault" => syntax::check_fault(rec),
        "poetic" => syntax::check_poetic(rec),
        // crash freedom only for the recorded C11 finding (it is not a C09 matter)
        "poeticrun" => if rec["fam"] == "saysopen" { lex::check_total(rec) } else { syntax::check_poetic(rec) },
        "fold" => lint::check_fold(rec),
        "lint" => lint::check_lint(rec),
        "visit" => lint::check_visit(rec),
        "exec" => exec::check(rec),
        "total" => lex::check_total(rec),
        "flat" => lex::check_flat(rec),
        _ => Verdict {
            st: "toolerr",
            nontrivial: false,
            msg: format!("unknown family {}", family),
            obs: J::Null,
        },
    }
}

pub fn record(family: &str, args: &[String]) -> i32 {
    std::panic::set_hook(Box::new(|_| {}));
    match family {
        "lex" => lexrec::record(args),
        "lawtable" => table::record_lawtable(args),
        "interp" => interprec::record(args),
        "corpus" => interprec::record_corpus(args),
        "corpus-trees" => interprec::record_corpus_trees(args),
        "cli" => cli::record(args),
        _ => {
            eprintln!("no recorder for family {}", family);
            2
        }
    }
}
