//! Family `table`: one operator application of the value algebra, executed (1) on the public `Val`
//! API and (2) through a program run by the real interpreter, both compared with the model's result.

use rrss::exec::produce_val::binary_operator_fold;
use rrss::exec::val::Val;
use rrss::exec::RuntimeError;
use rrss::frontend::ast::*;
use serde_json::{json, Value as J};
use std::cmp::Ordering;
use std::panic::{catch_unwind, AssertUnwindSafe};

use crate::astb::*;
use crate::exec::{self, lookup_simple, panic_msg, RunCfg};
use crate::jv;
use crate::Verdict;

fn is_unk(r: &J) -> bool {
    r["t"] == "unk"
}
fn is_blowup(r: &J) -> bool {
    r["t"] == "unk" && r["why"] == "resource"
}
fn is_err(r: &J) -> bool {
    r["t"] == "err"
}

// ---------------------------------------------------------------------------------------------
// API level

enum ApiRes {
    Val(Val),
    Err(String),
}

fn cmp_op(op: &str, a: &Val, b: &Val) -> ApiRes {
    match a.compare(b) {
        Err(e) => ApiRes::Err(e.to_string()),
        Ok(o) => ApiRes::Val(Val::Boolean(match (op, o) {
            (_, None) => false,
            ("gt", Some(o)) => o == Ordering::Greater,
            ("ge", Some(o)) => o != Ordering::Less,
            ("lt", Some(o)) => o == Ordering::Less,
            ("le", Some(o)) => o != Ordering::Greater,
            _ => unreachable!(),
        })),
    }
}

fn api_bin(op: &str, a: &Val, b: &Val) -> ApiRes {
    match op {
        "plus" => ApiRes::Val(a.plus(b)),
        "minus" => ApiRes::Val(a.subtract(b)),
        "times" => ApiRes::Val(a.multiply(b)),
        "over" => ApiRes::Val(a.divide(b)),
        "eq" => ApiRes::Val(Val::Boolean(a.equals(b))),
        "ne" => ApiRes::Val(Val::Boolean(!a.equals(b))),
        "and" => ApiRes::Val(Val::Boolean(a.is_truthy() && b.is_truthy())),
        "or" => ApiRes::Val(Val::Boolean(a.is_truthy() || b.is_truthy())),
        "nor" => ApiRes::Val(Val::Boolean(!a.is_truthy() && !b.is_truthy())),
        _ => cmp_op(op, a, b),
    }
}

fn api_fold(op: &str, a: &Val, bs: &[Val]) -> ApiRes {
    let rhs = bs.iter().map(|b| {
        let b = b.clone();
        move |_: &mut ()| -> Result<Val, RuntimeError> { Ok(b.clone()) }
    });
    match binary_operator_fold(binop(op), a.clone(), rhs, &mut ()) {
        Ok(v) => ApiRes::Val(v),
        Err(e) => ApiRes::Err(e.to_string()),
    }
}

fn opt_param(p: &J) -> Option<Val> {
    if p["t"] == "noparam" {
        None
    } else {
        Some(jv::to_val(p))
    }
}

/// Returns the observed result as JSON in the model's result schema, plus the list of
/// (name, original json) inputs that must be unchanged afterwards.
fn api_case(c: &J) -> Result<J, String> {
    let k = c["k"].as_str().unwrap();
    let vres = |r: ApiRes| match r {
        ApiRes::Val(v) => jv::from_val(&v),
        ApiRes::Err(m) => json!({"t":"err","msg":m}),
    };
    let unchanged = |orig: &Val, j: &J| -> Result<(), String> {
        if jv::from_val(orig) == jv::from_val(&jv::to_val(j)) {
            Ok(())
        } else {
            Err(format!("operand changed by the operation: now {}", jv::from_val(orig)))
        }
    };
    Ok(match k {
        "bin" => {
            let (a, b) = (jv::to_val(&c["a"]), jv::to_val(&c["b"]));
            let r = vres(api_bin(c["op"].as_str().unwrap(), &a, &b));
            unchanged(&a, &c["a"])?;
            unchanged(&b, &c["b"])?;
            if c["a"] == c["b"] {
                // equal operands also as two handles on ONE storage (what `put x into y` produces): values have no identity
                let shared = a.clone();
                let r2 = vres(api_bin(c["op"].as_str().unwrap(), &a, &shared));
                let r3 = vres(api_bin(c["op"].as_str().unwrap(), &a, &a));
                let strip = |j: &J| if j["t"] == "err" { json!({"t":"err"}) } else { j.clone() };
                if strip(&r2) != strip(&r) || strip(&r3) != strip(&r) {
                    return Err(format!("result depends on whether equal operands share storage: {} apart, {} as copies, {} as one value", r, r2, r3));
                }
            }
            r
        }
        "fold" | "compound" => {
            let a = jv::to_val(&c["a"]);
            let bs = [jv::to_val(&c["b1"]), jv::to_val(&c["b2"])];
            vres(api_fold(c["op"].as_str().unwrap(), &a, &bs))
        }
        "un" => {
            let a = jv::to_val(&c["a"]);
            match c["op"].as_str().unwrap() {
                "neg" => match a.negate() {
                    Ok(v) => jv::from_val(&v),
                    Err(e) => json!({"t":"err","msg":e.to_string()}),
                },
                _ => jv::from_val(&Val::Boolean(!a.is_truthy())),
            }
        }
        "inc" => {
            let keep = jv::to_val(&c["a"]);
            let mut a = keep.clone();
            let r = match a.inc(c["n"].as_i64().unwrap() as isize) {
                Ok(()) => jv::from_val(&a),
                Err(e) => json!({"t":"err","msg":e.to_string()}),
            };
            unchanged(&keep, &c["a"])?;
            r
        }
        "say" => {
            let a = jv::to_val(&c["a"]);
            json!({"t":"say","out":jv::abstractise(&a.to_string_for_output()),
                   "truthy": if a.is_truthy() {"T"} else {"F"}})
        }
        "index" => {
            let (v, key) = (jv::to_val(&c["v"]), jv::to_val(&c["key"]));
            let r = match v.index(&key) {
                Ok(x) => jv::from_val(&x),
                Err(e) => json!({"t":"err","msg":e.to_string()}),
            };
            unchanged(&v, &c["v"])?;
            r
        }
        "store" => {
            let keep = jv::to_val(&c["v"]);
            let mut v = keep.clone(); // shares storage with `keep`: the write must not show through
            let (key, x) = (jv::to_val(&c["key"]), jv::to_val(&c["x"]));
            let r = match v.index_or_insert(&key) {
                Ok(slot) => {
                    *slot = x;
                    jv::from_val(&v)
                }
                Err(e) => json!({"t":"err","msg":e.to_string()}),
            };
            unchanged(&keep, &c["v"])?;
            r
        }
        "rock" => {
            let keep = jv::to_val(&c["v"]);
            let mut v = keep.clone();
            let xs: Vec<Val> = c["xs"].as_array().unwrap().iter().map(jv::to_val).collect();
            let r = match v.push(xs.into_iter()) {
                Ok(()) => jv::from_val(&v),
                Err(e) => json!({"t":"err","msg":e.to_string()}),
            };
            unchanged(&keep, &c["v"])?;
            r
        }
        "roll" => {
            let keep = jv::to_val(&c["v"]);
            let mut v = keep.clone();
            let r = match v.pop() {
                Ok(x) => json!({"t":"roll","val":jv::from_val(&x),"rest":jv::from_val(&v)}),
                Err(e) => json!({"t":"err","msg":e.to_string()}),
            };
            unchanged(&keep, &c["v"])?;
            r
        }
        "cut" | "join" | "cast" => {
            let keep = jv::to_val(&c["v"]);
            let mut v = keep.clone();
            let p = opt_param(&c["p"]);
            let res = match k {
                "cut" => v.split(p),
                "join" => v.join(p),
                _ => v.cast(p),
            };
            let r = match res {
                Ok(()) => jv::from_val(&v),
                Err(e) => json!({"t":"err","msg":e.to_string()}),
            };
            unchanged(&keep, &c["v"])?;
            r
        }
        "turn" => {
            let mut v = jv::to_val(&c["v"]);
            let res = match c["dir"].as_str().unwrap() {
                "up" => v.round_up(),
                "down" => v.round_down(),
                _ => v.round_nearest(),
            };
            match res {
                Ok(()) => jv::from_val(&v),
                Err(e) => json!({"t":"err","msg":e.to_string()}),
            }
        }
        _ => return Err(format!("unknown case kind {}", k)),
    })
}

/// compare a model result with an observed result (both in result schema)
pub fn result_matches(exp: &J, obs: &J) -> bool {
    match exp["t"].as_str().unwrap() {
        "unk" => true,
        "err" => obs["t"] == "err",
        "say" => {
            (exp["det"] == false || exp["out"] == obs["out"])
                && (exp["truthy"] == "U" || exp["truthy"] == obs["truthy"])
        }
        "roll" => {
            obs["t"] == "roll" && jv::matches(&exp["val"], &obs["val"]) && jv::matches(&exp["rest"], &obs["rest"])
        }
        _ => jv::matches(exp, obs),
    }
}

// ---------------------------------------------------------------------------------------------
// program level

struct Prog {
    stmts: Vec<Statement>,
    line: u32,
    temps: u32,
}

impl Prog {
    fn new() -> Self {
        Prog {
            stmts: Vec::new(),
            line: 0,
            temps: 0,
        }
    }
    fn next_line(&mut self) -> u32 {
        self.line += 1;
        self.line
    }
    fn push(&mut self, f: impl FnOnce(u32) -> Statement) {
        let l = self.next_line();
        self.stmts.push(f(l));
    }
    fn scalar_lit(j: &J, line: u32) -> Option<PrimaryExpression> {
        Some(match j["t"].as_str().unwrap() {
            "myst" => lit(LiteralExpression::Mysterious, line),
            "null" => lit(LiteralExpression::Null, line),
            "bool" => lit(LiteralExpression::Boolean(j["b"].as_bool().unwrap()), line),
            "num" => num(jv::num_of(j), line),
            "str" => strlit(&jv::concretise(j["s"].as_str().unwrap()), line),
            _ => return None,
        })
    }
    fn key_lit(k: &J, line: u32) -> PrimaryExpression {
        match k["k"].as_str().unwrap() {
            "myst" => lit(LiteralExpression::Mysterious, line),
            "null" => lit(LiteralExpression::Null, line),
            "bool" => lit(LiteralExpression::Boolean(k["b"].as_bool().unwrap()), line),
            _ => strlit(&jv::concretise(k["s"].as_str().unwrap()), line),
        }
    }
    /// statements that leave the value `j` in variable `name`
    fn setup(&mut self, name: &str, j: &J) {
        if j["t"] == "arr" {
            let n = name.to_string();
            self.push(|l| {
                Statement::ArrayPush(ArrayPush {
                    array: var(&n, l),
                    value: None,
                })
            });
            for e in j["a"].as_array().unwrap() {
                let operand = self.operand(e);
                self.push(|l| {
                    Statement::ArrayPush(ArrayPush {
                        array: var(&n, l),
                        value: Some(ArrayPushRHS::ExpressionList(elist(vec![prim(operand(l))]))),
                    })
                });
            }
            for e in j["d"].as_array().unwrap() {
                let operand = self.operand(&e["v"]);
                let key = e["k"].clone();
                self.push(|l| {
                    assign(
                        AssignmentLHS::ArraySubscript(at(var(&n, l), Self::key_lit(&key, l))),
                        None,
                        vec![prim(operand(l))],
                    )
                });
            }
        } else {
            let jj = j.clone();
            let n = name.to_string();
            self.push(|l| put(&n, prim(Self::scalar_lit(&jj, l).unwrap()), l));
        }
    }
    /// an operand expression for a value: a literal, or a temporary variable holding an array
    fn operand(&mut self, j: &J) -> Box<dyn Fn(u32) -> PrimaryExpression> {
        if j["t"] == "arr" {
            self.temps += 1;
            let t = format!("tmp{}", "x".repeat(self.temps as usize));
            self.setup(&t, j);
            Box::new(move |l| var(&t, l))
        } else {
            let jj = j.clone();
            Box::new(move |l| Self::scalar_lit(&jj, l).unwrap())
        }
    }
}

struct ProgCase {
    prog: Program,
    /// variable holding the result
    result_var: &'static str,
    /// (variable, model value) pairs that must still hold after the run
    unchanged: Vec<(String, J)>,
    extra: Option<&'static str>,
}

fn build_program(c: &J, form: u8) -> Option<ProgCase> {
    let k = c["k"].as_str().unwrap();
    let mut p = Prog::new();
    let mut unchanged = Vec::new();
    let mut extra = None;
    let mut input = |p: &mut Prog, name: &str, j: &J, unchanged: &mut Vec<(String, J)>| {
        p.setup(name, j);
        unchanged.push((name.to_string(), j.clone()));
    };
    match k {
        "bin" => {
            input(&mut p, "va", &c["a"], &mut unchanged);
            if form == 2 {
                // the second operand is a copy of the first (made by assignment: both handles share storage until one is written)
                if c["a"] != c["b"] {
                    return None;
                }
                p.push(|l| put("vb", prim(var("va", l)), l));
                unchanged.push(("vb".to_string(), c["b"].clone()));
            } else {
                input(&mut p, "vb", &c["b"], &mut unchanged);
            }
            let op = binop(c["op"].as_str().unwrap());
            p.push(|l| put("vr", bin(op, prim(var("va", l)), vec![prim(var("vb", l))]), l));
        }
        "fold" => {
            input(&mut p, "va", &c["a"], &mut unchanged);
            input(&mut p, "vb", &c["b1"], &mut unchanged);
            input(&mut p, "vc", &c["b2"], &mut unchanged);
            let op = binop(c["op"].as_str().unwrap());
            p.push(|l| {
                put(
                    "vr",
                    bin(op, prim(var("va", l)), vec![prim(var("vb", l)), prim(var("vc", l))]),
                    l,
                )
            });
        }
        "compound" => {
            input(&mut p, "va", &c["a"], &mut unchanged);
            input(&mut p, "vb", &c["b1"], &mut unchanged);
            input(&mut p, "vc", &c["b2"], &mut unchanged);
            let op = binop(c["op"].as_str().unwrap());
            p.push(|l| put("vr", prim(var("va", l)), l));
            p.push(|l| {
                assign(
                    lhs_var("vr", l),
                    Some(op),
                    vec![prim(var("vb", l)), prim(var("vc", l))],
                )
            });
        }
        "un" => {
            input(&mut p, "va", &c["a"], &mut unchanged);
            let op = if c["op"] == "neg" {
                UnaryOperator::Minus
            } else {
                UnaryOperator::Not
            };
            p.push(|l| put("vr", un(op, prim(var("va", l))), l));
        }
        "inc" => {
            input(&mut p, "va", &c["a"], &mut unchanged);
            let n = c["n"].as_i64().unwrap();
            p.push(|l| put("vr", prim(var("va", l)), l));
            p.push(|l| {
                if n > 0 {
                    Statement::Inc(Inc {
                        dest: ident(simple("vr"), l),
                        amount: n as isize,
                    })
                } else {
                    Statement::Dec(Dec {
                        dest: ident(simple("vr"), l),
                        amount: (-n) as isize,
                    })
                }
            });
        }
        "say" => {
            input(&mut p, "va", &c["a"], &mut unchanged);
            p.push(|l| say(prim(var("va", l))));
            p.push(|l| put("vr", prim(strlit("?", l)), l));
            let l = p.next_line();
            let l2 = p.next_line();
            let l3 = p.next_line();
            p.stmts.push(Statement::If(If {
                condition: prim(var("va", l)),
                then_block: block(vec![put("vr", prim(strlit("T", l2)), l2)], l2),
                else_block: Some(block(vec![put("vr", prim(strlit("F", l3)), l3)], l3)),
            }));
            extra = Some("say");
        }
        "index" => {
            input(&mut p, "vv", &c["v"], &mut unchanged);
            input(&mut p, "vk", &c["key"], &mut unchanged);
            p.push(|l| {
                put(
                    "vr",
                    prim(PrimaryExpression::ArraySubscript(at(var("vv", l), var("vk", l)))),
                    l,
                )
            });
        }
        "store" => {
            input(&mut p, "vv", &c["v"], &mut unchanged);
            input(&mut p, "vk", &c["key"], &mut unchanged);
            input(&mut p, "vx", &c["x"], &mut unchanged);
            p.push(|l| put("vr", prim(var("vv", l)), l));
            p.push(|l| {
                assign(
                    AssignmentLHS::ArraySubscript(at(var("vr", l), var("vk", l))),
                    None,
                    vec![prim(var("vx", l))],
                )
            });
        }
        "rock" => {
            input(&mut p, "vv", &c["v"], &mut unchanged);
            let xs = c["xs"].as_array().unwrap();
            let names = ["vx", "vy", "vz"];
            for (i, x) in xs.iter().enumerate() {
                input(&mut p, names[i], x, &mut unchanged);
            }
            p.push(|l| put("vr", prim(var("vv", l)), l));
            let n = xs.len();
            p.push(|l| {
                Statement::ArrayPush(ArrayPush {
                    array: var("vr", l),
                    value: if n == 0 {
                        None
                    } else {
                        Some(ArrayPushRHS::ExpressionList(elist(
                            (0..n).map(|i| prim(var(names[i], l))).collect(),
                        )))
                    },
                })
            });
        }
        "roll" => {
            input(&mut p, "vv", &c["v"], &mut unchanged);
            p.push(|l| put("vr", prim(var("vv", l)), l));
            p.push(|l| {
                Statement::ArrayPop(ArrayPop {
                    expr: ArrayPopExpr { array: var("vr", l) },
                    dest: Some(lhs_var("vq", l)),
                })
            });
            extra = Some("roll");
        }
        "cut" | "join" | "cast" => {
            input(&mut p, "vv", &c["v"], &mut unchanged);
            let has_param = c["p"]["t"] != "noparam";
            if has_param {
                input(&mut p, "vp", &c["p"], &mut unchanged);
            }
            let operator = match k {
                "cut" => MutationOperator::Cut,
                "join" => MutationOperator::Join,
                _ => MutationOperator::Cast,
            };
            if form == 0 {
                // in place on a copy
                p.push(|l| put("vr", prim(var("vv", l)), l));
                p.push(|l| {
                    Statement::Mutation(Mutation {
                        operator,
                        operand: var("vr", l),
                        dest: None,
                        param: has_param.then(|| prim(var("vp", l))),
                    })
                });
            } else {
                p.push(|l| {
                    Statement::Mutation(Mutation {
                        operator,
                        operand: var("vv", l),
                        dest: Some(lhs_var("vr", l)),
                        param: has_param.then(|| prim(var("vp", l))),
                    })
                });
            }
        }
        "turn" => {
            input(&mut p, "vv", &c["v"], &mut unchanged);
            let direction = match c["dir"].as_str().unwrap() {
                "up" => RoundingDirection::Up,
                "down" => RoundingDirection::Down,
                _ => RoundingDirection::Nearest,
            };
            p.push(|l| put("vr", prim(var("vv", l)), l));
            p.push(|l| {
                Statement::Rounding(Rounding {
                    direction,
                    operand: prim(var("vr", l)),
                })
            });
        }
        _ => return None,
    }
    Some(ProgCase {
        prog: program(vec![p.stmts]),
        result_var: "vr",
        unchanged,
        extra,
    })
}

fn var_json(ev: &rrss::verif::StmtEvent, name: &str) -> Option<J> {
    match lookup_simple(ev, name) {
        Some(rrss::verif::EntrySnapshot::Var(v)) => Some(jv::from_val(v)),
        _ => None,
    }
}

fn prog_case(c: &J, exp: &J, form: u8) -> Result<Option<J>, String> {
    let pc = match build_program(c, form) {
        Some(pc) => pc,
        None => return Ok(None),
    };
    let obs = exec::run(&pc.prog, &RunCfg::default());
    if obs.is_panic() {
        return Err(format!("interpreter {}", obs.outcome_str()));
    }
    if is_unk(exp) {
        return Ok(Some(json!({"outcome": obs.outcome_str()})));
    }
    if is_err(exp) {
        return if obs.is_err() {
            Ok(Some(json!({"outcome": obs.outcome_str()})))
        } else {
            Err(format!("program: expected a runtime error, got {}", obs.outcome_str()))
        };
    }
    if !obs.is_ok() {
        return Err(format!("program: expected success, got {}", obs.outcome_str()));
    }
    let ev = obs.last_stmt().ok_or("no statement event recorded")?;
    let got = var_json(ev, pc.result_var).ok_or("result variable missing")?;
    let observed = match pc.extra {
        Some("say") => {
            let out = obs.out_text();
            let line = out.strip_suffix('\n').ok_or("say did not end its line")?;
            json!({"t":"say","out":jv::abstractise(line),"truthy":got["s"]})
        }
        Some("roll") => {
            let q = var_json(ev, "vq").ok_or("roll destination missing")?;
            json!({"t":"roll","val":q,"rest":got})
        }
        _ => got,
    };
    if !result_matches(exp, &observed) {
        return Err(format!("program: result {} differs from model", observed));
    }
    for (name, j) in &pc.unchanged {
        let now = var_json(ev, name).ok_or("input variable missing")?;
        if !jv::matches(j, &now) {
            return Err(format!("program: input `{}` changed to {}", name, now));
        }
    }
    Ok(Some(observed))
}

pub fn check(rec: &J) -> Verdict {
    let c = &rec["c"];
    let exp = &rec["r"];
    let k = c["k"].as_str().unwrap_or("");
    if k == "laws" {
        return Verdict::skip("law instance (model only)");
    }
    if is_blowup(exp) {
        return Verdict::skip("resource blow-up: not executed");
    }
    // API level
    let api = catch_unwind(AssertUnwindSafe(|| api_case(c)));
    let api_obs = match api {
        Err(p) => return Verdict::viol(format!("Val API panicked: {}", panic_msg(p)), J::Null),
        Ok(Err(m)) => return Verdict::viol(format!("Val API: {}", m), J::Null),
        Ok(Ok(o)) => o,
    };
    if !result_matches(exp, &api_obs) {
        return Verdict::viol("Val API result differs from model".into(), api_obs);
    }
    // program level
    let forms: &[u8] = if matches!(k, "cut" | "join" | "cast") { &[0, 1] } else if k == "bin" { &[0, 2] } else { &[0] };
    for &f in forms {
        match prog_case(c, exp, f) {
            Err(m) => return Verdict::viol(m, json!({"api": api_obs, "form": f})),
            Ok(_) => {}
        }
    }
    let nontrivial = !(is_unk(exp));
    Verdict::ok(nontrivial)
}

// ---------------------------------------------------------------------------------------------
// recorder for TableTrace (C14): the implementation's own comparison / logic / inc-dec / compound-assignment
// tables over the pairs of the universe, for TLC to evaluate the laws of Laws.tla on

fn res_json(r: ApiRes) -> J {
    match r {
        ApiRes::Val(v) => jv::from_val(&v),
        ApiRes::Err(_) => json!({"t":"err"}),
    }
}

fn compound(a: &J, b: &J, op: &str, expanded: bool) -> J {
    let mut p = Prog::new();
    p.setup("va", a);
    p.setup("vb", b);
    p.push(|l| put("vr", prim(var("va", l)), l));
    let o = binop(op);
    if expanded {
        p.push(|l| put("vr", bin(o, prim(var("vr", l)), vec![prim(var("vb", l))]), l));
    } else {
        p.push(|l| assign(lhs_var("vr", l), Some(o), vec![prim(var("vb", l))]));
    }
    let obs = exec::run(&program(vec![p.stmts]), &RunCfg::default());
    if obs.is_panic() {
        return json!({"t":"panic"});
    }
    if !obs.is_ok() {
        return json!({"t":"err"});
    }
    obs.last_stmt().and_then(|ev| var_json(ev, "vr")).unwrap_or(json!({"t":"missing"}))
}

/// The same cells through the interpreter: `put <expr> into vr` run as a program (binary operators, `not`), and truthiness as
/// the branch an `if` takes.
fn prog_value(a: &J, b: &J, build: impl FnOnce(u32) -> Expression) -> J {
    let mut p = Prog::new();
    p.setup("va", a);
    p.setup("vb", b);
    p.push(|l| put("vr", build(l), l));
    let obs = exec::run(&program(vec![p.stmts]), &RunCfg::default());
    if obs.is_panic() {
        return json!({"t":"panic"});
    }
    if !obs.is_ok() {
        return json!({"t":"err"});
    }
    obs.last_stmt().and_then(|ev| var_json(ev, "vr")).unwrap_or(json!({"t":"missing"}))
}
fn prog_truthy(a: &J) -> &'static str {
    let mut p = Prog::new();
    p.setup("va", a);
    p.push(|l| put("vr", prim(strlit("unset", l)), l));
    p.push(|l| put("vw", prim(strlit("unset", l)), l));
    let l = p.next_line();
    p.stmts.push(Statement::If(If {
        condition: prim(var("va", l)),
        then_block: block(vec![put("vr", prim(strlit("T", l + 1)), l + 1)], l + 1),
        else_block: Some(block(vec![put("vr", prim(strlit("F", l + 2)), l + 2)], l + 2)),
    }));
    // a loop sees the same truthiness as a branch
    let l2 = l + 3;
    p.stmts.push(Statement::While(While {
        condition: prim(var("va", l2)),
        block: block(vec![put("vw", prim(strlit("T", l2 + 1)), l2 + 1), Statement::Break(Break(rng(l2 + 2)))], l2 + 1),
    }));
    p.line = l2 + 3;
    let obs = exec::run(&program(vec![p.stmts]), &RunCfg::default());
    if !obs.is_ok() {
        return "E";
    }
    let ev = match obs.last_stmt() {
        Some(e) => e,
        None => return "E",
    };
    let branch = var_json(ev, "vr").and_then(|v| v["s"].as_str().map(|s| s.to_string())).unwrap_or_default();
    let looped = var_json(ev, "vw").map_or(false, |v| v["s"] == "T");
    match (branch.as_str(), looped) {
        ("T", true) => "T",
        ("F", false) => "F",
        _ => "X", // the branch and the loop disagree
    }
}

pub fn record_lawtable(args: &[String]) -> i32 {
    use std::io::Write;
    let mut input = None;
    let mut out = None;
    let mut i = 0;
    while i < args.len() {
        match args[i].as_str() {
            "--in" => { input = Some(args[i + 1].clone()); i += 1 }
            "--out" => { out = Some(args[i + 1].clone()); i += 1 }
            "--seed" | "--n" | "--maxlen" => { i += 1 }
            a => { eprintln!("unknown option {}", a); return 2 }
        }
        i += 1;
    }
    let text = std::fs::read_to_string(input.expect("--in required")).expect("cannot read cases");
    let mut f = std::fs::File::create(out.expect("--out required")).expect("cannot create trace file");
    let ops = ["eq", "ne", "lt", "le", "gt", "ge", "and", "or", "nor"];
    for line in text.lines() {
        let rec: J = match crate::sup::extract(line).and_then(|j| serde_json::from_str(&j).ok()) {
            Some(r) => r,
            None => continue,
        };
        if rec["c"]["k"] != "laws" {
            continue;
        }
        let (ja, jb) = (&rec["c"]["a"], &rec["c"]["b"]);
        let (a, b) = (jv::to_val(ja), jv::to_val(jb));
        let table = |x: &Val, y: &Val| -> J {
            let mut m = serde_json::Map::new();
            for op in ops {
                m.insert(op.to_string(), res_json(api_fold(op, x, &[y.clone()])));
            }
            J::Object(m)
        };
        let t = |v: &Val| if v.is_truthy() { "T" } else { "F" };
        let mut inc1 = serde_json::Map::new();
        let mut inc2 = serde_json::Map::new();
        for k in [1isize, 2, 3, -1, -2, -3] {
            let mut v = a.clone();
            let r1 = v.inc(k);
            inc1.insert(k.to_string(), if r1.is_ok() { jv::from_val(&v) } else { json!({"t":"err"}) });
            let r2 = if r1.is_ok() { v.inc(-k) } else { r1 };
            inc2.insert(k.to_string(), if r2.is_ok() { jv::from_val(&v) } else { json!({"t":"err"}) });
        }
        let mut c1 = serde_json::Map::new();
        let mut c2 = serde_json::Map::new();
        for op in ["plus", "minus", "times", "over"] {
            // string repetition by a huge count is a resource question: leave those cells out
            let blow = op == "times" && matches!(&b, Val::Number(n) if *n > 1000.0) && !matches!(&a, Val::Number(_));
            if !blow {
                c1.insert(op.to_string(), compound(ja, jb, op, false));
                c2.insert(op.to_string(), compound(ja, jb, op, true));
            }
        }
        let ptable = |x: &J, y: &J| -> J {
            let mut m = serde_json::Map::new();
            for op in ops {
                m.insert(op.to_string(), prog_value(x, y, |l| bin(binop(op), prim(var("va", l)), vec![prim(var("vb", l))])));
            }
            J::Object(m)
        };
        writeln!(f, "{}", json!({"a": ja, "b": jb, "ab": table(&a, &b), "ba": table(&b, &a), "ta": t(&a), "tb": t(&b),
                                   "na": jv::from_val(&Val::Boolean(!a.is_truthy())), "inc1": inc1, "inc2": inc2, "c1": c1, "c2": c2,
                                   "pab": ptable(ja, jb), "pba": ptable(jb, ja), "pta": prog_truthy(ja), "ptb": prog_truthy(jb),
                                   "pna": prog_value(ja, jb, |l| un(UnaryOperator::Not, prim(var("va", l))))})).unwrap();
    }
    0
}
