//! Families `fold` (C17), `lint` (C18, C19) and `visit` (C16).

use rrss::analysis::tools::{NumericConstantFolder, SimpleStringConstantFolder};
use rrss::analysis::visit::{self, Combine, ExprVisitorRunner, Visit, VisitExpr, VisitProgram};
use rrss::frontend::ast::*;
use rrss::frontend::source_range::SourceRange;
use rrss::linter::standard_linter;
use serde_json::{json, Value as J};
use std::panic::{catch_unwind, AssertUnwindSafe};

use crate::astb::*;
use crate::astjson::{Builder, Naming};
use crate::exec::{self, lookup_simple, panic_msg, RunCfg};
use crate::jv;
use crate::Verdict;

// ------------------------------------------------------------------------------------------------
// fold

pub fn check_fold(rec: &J) -> Verdict {
    let naming = Naming::default();
    let b = Builder { naming: &naming };
    let e = if rec["e"]["e"] == "plit" { None } else { Some(b.expr(&rec["e"], 1)) };
    // how the reported constant is WRITTEN (its Display form, which the lint messages quote)
    let shown = catch_unwind(AssertUnwindSafe(|| match &e {
        Some(e) => (
            NumericConstantFolder.visit_expression(e).ok().map(|c| c.to_string()),
            SimpleStringConstantFolder.visit_expression(e).ok().map(|c| c.to_string()),
        ),
        None => (None, None),
    }));
    let (shown_num, shown_str) = match shown {
        Ok(x) => x,
        Err(p) => return Verdict::viol(format!("writing the reported constant panicked: {}", panic_msg(p)), J::Null),
    };
    let r = catch_unwind(AssertUnwindSafe(|| match &e {
        Some(e) => (
            NumericConstantFolder.visit_expression(e).map(|c| c.value).map_err(|x| format!("{:?}", x)),
            SimpleStringConstantFolder.visit_expression(e).map(|c| c.value).map_err(|x| format!("{:?}", x)),
        ),
        None => {
            let p = b.plit(&rec["e"]);
            (
                NumericConstantFolder.visit_poetic_number_literal(&p).map(|c| c.value).map_err(|x| format!("{:?}", x)),
                SimpleStringConstantFolder.visit_poetic_number_literal(&p).map(|c| c.value).map_err(|x| format!("{:?}", x)),
            )
        }
    }));
    let (num, st) = match r {
        Ok(x) => x,
        Err(p) => return Verdict::viol(format!("constant folder panicked: {}", panic_msg(p)), J::Null),
    };
    let obs = json!({"num": num.as_ref().map(|f| jv::num_json(*f)).map_err(|e| e.clone()).unwrap_or_else(|e| json!({"why": e})),
                     "str": st.clone().unwrap_or_else(|e| format!("<{}>", e))});
    // numeric folder vs model
    let mn = &rec["num"];
    match (&num, mn["ok"].as_bool().unwrap()) {
        (Ok(f), true) => {
            if !jv::matches(&mn["v"], &jv::num_json(*f)) {
                return Verdict::viol("numeric folder reports a different value than the model".into(), obs);
            }
        }
        (Err(_), false) => {} // why it declines is not part of C17
        (Ok(_), false) => return Verdict::viol("numeric folder reports a value where the model reports none".into(), obs),
        (Err(w), true) => return Verdict::viol(format!("numeric folder declines ({}) where the model reports a value", w), obs),
    }
    let ms = &rec["str"];
    match (&st, ms["ok"].as_bool().unwrap()) {
        (Ok(sv), true) => {
            if ms["v"]["s"].as_str() != Some(jv::abstractise(sv).as_str()) {
                return Verdict::viol("string folder reports a different value than the model".into(), obs);
            }
        }
        (Err(_), false) => {}
        _ => return Verdict::viol("string folder and model disagree on whether a value is reported".into(), obs),
    }
    // differential on the implementation: whatever the folder reports, the interpreter computes
    if let (Some(e), true) = (&e, num.is_ok() || st.is_ok()) {
        let prog = program(vec![vec![
            Statement::ArrayPush(ArrayPush { array: var("x", 1), value: Some(ArrayPushRHS::ExpressionList(elist(vec![prim(num_lit(7.0))]))) }),
            function(simple("f"), vec![simple("a")], block(vec![Statement::Return(Return { value: prim(var("a", 2)) })], 2), 2),
            Statement::ArrayPush(ArrayPush { array: var("x", 3), value: None }),
            put("r", e.clone(), 4),
        ]]);
        let run = exec::run(&prog, &RunCfg::default());
        if run.is_panic() {
            return Verdict::viol(format!("interpreter {}", run.outcome_str()), obs);
        }
        let got = run.last_stmt().and_then(|ev| match lookup_simple(ev, "r") {
            Some(rrss::verif::EntrySnapshot::Var(v)) => Some(jv::from_val(v)),
            _ => None,
        });
        let want = match (&num, &st) {
            (Ok(f), _) => jv::num_json(*f),
            (_, Ok(sv)) => json!({"t":"str","s":jv::abstractise(sv)}),
            _ => unreachable!(),
        };
        // the written form of the constant is what `say <expression>` prints (a string between double quotes)
        let said = exec::run(&program(vec![vec![say(e.clone())]]), &RunCfg::default());
        if said.is_ok() {
            let line = said.out_text();
            let line = line.strip_suffix('\n').unwrap_or(&line).to_string();
            let written = match (&num, &st) {
                (Ok(_), _) => shown_num.clone(),
                (_, Ok(_)) => shown_str.clone().map(|t| t.strip_prefix('"').and_then(|t| t.strip_suffix('"')).map(|t| t.to_string()).unwrap_or(t)),
                _ => None,
            };
            if written.as_deref() != Some(line.as_str()) {
                return Verdict::viol(format!("the constant is written as {:?} but `say` prints {:?}", written, line), obs);
            }
        }
        if got.as_ref() != Some(&want) {
            return Verdict::viol(
                format!("folder reports {} but executing the expression gives {:?} ({})", want, got, run.outcome_str()),
                obs,
            );
        }
    }
    Verdict::ok(num.is_ok() || st.is_ok())
}

fn num_lit(f: f64) -> PrimaryExpression {
    num(f, 1)
}

// ------------------------------------------------------------------------------------------------
// lint

fn between<'a>(s: &'a str, open: &str, close: &str) -> Option<(&'a str, &'a str)> {
    let i = s.find(open)? + open.len();
    let j = s[i..].find(close)? + i;
    Some((&s[i..j], &s[j + close.len()..]))
}

pub fn diag_json(d: &rrss::linter::Diag) -> J {
    if let Some(rest) = d.issue.strip_prefix("Assignment of literal value `") {
        // value may itself contain back-quotes only in pathological strings; take the last "` into `"
        let k = rest.rfind("` into `").unwrap_or(0);
        let value = &rest[..k];
        let target = between(&rest[k..], "` into `", "`").map(|x| x.0).unwrap_or("?");
        let sugg: Vec<J> = d
            .suggestions
            .iter()
            .map(|s| {
                let p = s.strip_prefix("Consider using a poetic literal such as: `").and_then(|x| x.strip_suffix('`'));
                json!(p.map(jv::abstractise).unwrap_or_else(|| format!("<unrecognised suggestion: {}>", s)))
            })
            .collect();
        json!({"pass":"boring","line":d.line,"target":jv::abstractise(target),"value":jv::abstractise(value),"sugg":sugg})
    } else if let Some((t, _)) = between(&d.issue, "Using identifier `", "` more than once") {
        json!({"pass":"repeat","line":d.line,"target":jv::abstractise(t),"nsugg":d.suggestions.len()})
    } else {
        json!({"pass":"?","issue":d.issue,"line":d.line})
    }
}

fn close(a: f64, b: f64) -> bool {
    a == b || (a - b).abs() <= 8.0 * f64::EPSILON * a.abs().max(b.abs())
}

/// C18: the suggested line, taken as a program, gives the target the reported value.
fn suggestion_works(payload: &str, target: &str, value: &str) -> Result<(), String> {
    let text = jv::concretise(&payload.replace('*', "x"));
    let prog = rrss::frontend::parser::parse(&text).map_err(|e| format!("suggested line `{}` does not parse: {}", payload, e))?;
    let run = exec::run(&prog, &RunCfg::default());
    if !run.is_ok() {
        return Err(format!("suggested line `{}` does not run: {}", payload, run.outcome_str()));
    }
    let ev = run.last_stmt().ok_or("suggested line executes no statement")?;
    let v = match lookup_simple(ev, &target.to_lowercase()) {
        Some(rrss::verif::EntrySnapshot::Var(v)) => v.clone(),
        _ => return Err(format!("suggested line `{}` does not assign `{}`", payload, target)),
    };
    use rrss::exec::val::Val;
    let v = if payload.starts_with("Rock ") {
        // the pushed element
        let (arr, _) = match &v {
            Val::Array(a) => a.verif_parts(),
            _ => return Err("suggested rock does not produce an array".into()),
        };
        arr.last().cloned().ok_or("suggested rock pushes nothing")?
    } else {
        v
    };
    match (&v, value.strip_prefix('"').and_then(|x| x.strip_suffix('"'))) {
        (Val::String(s), Some(want)) if jv::abstractise(s) == want => Ok(()),
        (Val::Number(f), None) => match value.parse::<f64>() {
            Ok(w) if close(*f, w) => Ok(()),
            _ => Err(format!("suggested line `{}` gives {} where the report says {}", payload, f, value)),
        },
        _ => Err(format!("suggested line `{}` gives {} where the report says {}", payload, jv::from_val(&v), value)),
    }
}

/// the single right-hand-side expression of the assignment-like statement on `line`, if it has one
fn find_rhs(prog: &J, line: u64) -> Option<J> {
    fn in_stmts(ss: &J, line: u64) -> Option<J> {
        for s in ss.as_array()? {
            if s["line"].as_u64() == Some(line) {
                return match s["s"].as_str()? {
                    "assign" if s["op"] == "none" && s["vals"].as_array()?.len() == 1 => Some(s["vals"][0].clone()),
                    "pnum" if s["e"]["e"] != "plit" => Some(s["e"].clone()),
                    "rock" if s["vals"].as_array()?.len() == 1 && s["vals"][0]["e"] != "plit" => Some(s["vals"][0].clone()),
                    _ => None,
                };
            }
            for k in ["th", "el", "body"] {
                if let Some(found) = s.get(k).and_then(|b| in_stmts(b, line)) {
                    return Some(found);
                }
            }
        }
        None
    }
    prog.as_array()?.iter().find_map(|b| in_stmts(b, line))
}

fn named_value_is_computed(prog: &J, o: &J, naming: &Naming) -> Result<(), String> {
    if let Some(expr) = find_rhs(prog, o["line"].as_u64().unwrap_or(0)) {
        let say = json!([[{"s":"say","line":1,"e":expr}]]);
        let p2 = Builder { naming }.program(&say);
        let run = crate::exec::run(&p2, &crate::exec::RunCfg::default());
        if run.is_ok() {
            let printed = run.out_text();
            let printed = printed.trim_end_matches('\n');
            if printed != o["value"].as_str().unwrap() {
                return Err(format!("the lint names the value {} but the interpreter computes {} for that right-hand side", o["value"], printed));
            }
        }
    }
    Ok(())
}

pub fn check_lint(rec: &J) -> Verdict {
    let naming = Naming::default();
    let prog = Builder { naming: &naming }.program(&rec["prog"]);
    let before = format!("{:?}", prog);
    let diags = match catch_unwind(AssertUnwindSafe(|| standard_linter().run(&prog).diags)) {
        Ok(d) => d,
        Err(p) => return Verdict::viol(format!("linter panicked: {}", panic_msg(p)), J::Null),
    };
    if format!("{:?}", prog) != before {
        return Verdict::viol("linting changed the program".into(), J::Null);
    }
    let obs: Vec<J> = diags.iter().map(diag_json).collect();
    let exp = rec["report"].as_array().unwrap();
    let fail = |m: String| Verdict::viol(m, json!({"report": obs.clone()}));
    if std::env::var("VH_LINT_PARTS").map_or(false, |v| v == "values") {
        // C17 only: every numeric value the linter names (it comes from the constant folder) is the value the interpreter computes
        for (i, o) in obs.iter().enumerate() {
            if o["pass"] == "boring" && !o["value"].as_str().unwrap_or("\"").starts_with('"') {
                if let Err(m) = named_value_is_computed(&rec["prog"], o, &naming) {
                    return fail(format!("diagnostic {}: {}", i + 1, m));
                }
            }
        }
        return Verdict::ok(!obs.is_empty());
    }
    if exp.len() != obs.len() {
        return fail(format!("{} diagnostics, model {}", obs.len(), exp.len()));
    }
    for (i, (e, o)) in exp.iter().zip(&obs).enumerate() {
        if e["pass"] != o["pass"] || e["line"] != o["line"] || e["target"] != o["target"] {
            return fail(format!("diagnostic {}: {} where the model reports {}", i + 1, o, e));
        }
        if e["pass"] == "boring" && e["det"] == true {
            if e["value"] != o["value"] {
                return fail(format!("diagnostic {}: value {} (model {})", i + 1, o["value"], e["value"]));
            }
        }
        if o["pass"] == "boring" && !o["value"].as_str().unwrap_or("\"").starts_with('"') {
            // C17 / C18 on the implementation alone: the numeric value the lint names is what the interpreter computes for the
            // statement's right-hand side (also where the model's number domain is silent, e.g. 1 over 3)
            if let Err(m) = named_value_is_computed(&rec["prog"], o, &naming) {
                return fail(format!("diagnostic {}: {}", i + 1, m));
            }
        }
        if o["pass"] == "boring" {
            // Suggestions are judged by what they do, not by their wording: the words of every suggestion must spell the
            // reported value, and for a plain variable the suggested line must assign it.  (The model's own suggestion text
            // is kept in the record as documentation of the template.)
            let target = o["target"].as_str().unwrap();
            for sgg in o["sugg"].as_array().unwrap() {
                let payload = sgg.as_str().unwrap();
                let (line_text, var) = if target.starts_with('<') || target.contains(':') || target.contains(' ') {
                    // replace the unrenderable target by a variable so that the words can be read
                    match payload.find(" is ").map(|k| (k, " is ")).or_else(|| payload.find(" like ").map(|k| (k, " like "))).or_else(|| payload.find(" says ").map(|k| (k, " says "))) {
                        Some((k, " like ")) => (format!("Rock zzz like {}", &payload[k + 6..]), "zzz".to_string()),
                        Some((k, sep)) => (format!("zzz{}{}", sep, &payload[k + sep.len()..]), "zzz".to_string()),
                        None => (payload.to_string(), "zzz".to_string()),
                    }
                } else {
                    (payload.to_string(), target.to_string())
                };
                if let Err(m) = suggestion_works(&line_text, &var, o["value"].as_str().unwrap()) {
                    return fail(format!("diagnostic {}: {}", i + 1, m));
                }
            }
        }
    }
    Verdict::ok(!exp.is_empty())
}

// ------------------------------------------------------------------------------------------------
// visit

#[derive(Clone, Debug, PartialEq)]
pub enum Term {
    Def,
    Leaf(String),
    Comb(Box<Term>, Box<Term>),
}
impl Default for Term {
    fn default() -> Self {
        Term::Def
    }
}
impl Combine for Term {
    fn combine(self, other: Self) -> Self {
        Term::Comb(Box::new(self), Box::new(other))
    }
}
impl Term {
    fn to_json(&self) -> J {
        match self {
            Term::Def => json!({"k":"def"}),
            Term::Leaf(l) => json!({"k":"leaf","l":l}),
            Term::Comb(a, b) => json!({"k":"comb","a":a.to_json(),"b":b.to_json()}),
        }
    }
}

pub struct Recorder {
    pub log: Vec<String>,
    pub fail_at: Option<usize>,
}
impl Recorder {
    fn cb(&mut self, label: String) -> Result<Term, String> {
        self.log.push(label.clone());
        if Some(self.log.len()) == self.fail_at {
            Err(format!("fail@{}", self.log.len()))
        } else {
            Ok(Term::Leaf(label))
        }
    }
}
impl Visit for Recorder {
    type Output = Term;
    type Error = String;
}
fn op_name(o: BinaryOperator) -> &'static str {
    match o {
        BinaryOperator::Plus => "plus",
        BinaryOperator::Minus => "minus",
        BinaryOperator::Multiply => "times",
        BinaryOperator::Divide => "over",
        BinaryOperator::And => "and",
        BinaryOperator::Or => "or",
        BinaryOperator::Nor => "nor",
        BinaryOperator::Eq => "eq",
        BinaryOperator::NotEq => "ne",
        BinaryOperator::Greater => "gt",
        BinaryOperator::GreaterEq => "ge",
        BinaryOperator::Less => "lt",
        BinaryOperator::LessEq => "le",
    }
}
impl VisitExpr for Recorder {
    fn visit_poetic_number_literal_elem(&mut self, p: &PoeticNumberLiteralElem) -> visit::Result<Self> {
        self.cb(match p {
            PoeticNumberLiteralElem::Word(w) => format!("pw:{}", jv::abstractise(w)),
            PoeticNumberLiteralElem::WordSuffix(w) => format!("ps:{}", jv::abstractise(w)),
            PoeticNumberLiteralElem::Dot => "pd".into(),
        })
    }
    fn visit_binary_operator(&mut self, o: BinaryOperator) -> visit::Result<Self> {
        self.cb(format!("op:{}", op_name(o)))
    }
    fn visit_unary_operator(&mut self, o: UnaryOperator) -> visit::Result<Self> {
        self.cb(format!("un:{}", if o == UnaryOperator::Minus { "neg" } else { "not" }))
    }
    fn visit_literal_expression(&mut self, e: &WithRange<LiteralExpression>) -> visit::Result<Self> {
        self.cb(match &e.0 {
            LiteralExpression::Mysterious => "lit:mysterious".into(),
            LiteralExpression::Null => "lit:null".into(),
            LiteralExpression::Boolean(b) => format!("lit:{}", b),
            LiteralExpression::Number(_) => "lit:number".into(),
            LiteralExpression::String(s) => format!("lit:str:{}", jv::abstractise(s)),
        })
    }
    fn visit_pronoun(&mut self, _: SourceRange) -> visit::Result<Self> {
        self.cb("pro".into())
    }
    fn visit_simple_identifier(&mut self, n: WithRange<&SimpleIdentifier>) -> visit::Result<Self> {
        self.cb(format!("id:{}", n.0 .0))
    }
    fn visit_common_identifier(&mut self, n: WithRange<&CommonIdentifier>) -> visit::Result<Self> {
        self.cb(format!("id:{} {}", n.0 .0, n.0 .1))
    }
    fn visit_proper_identifier(&mut self, n: WithRange<&ProperIdentifier>) -> visit::Result<Self> {
        self.cb(format!("id:{}", n.0 .0.join(" ")))
    }
}

/// A visitor that overrides EVERY method of the expression-visitor interface: it records that the node was presented and
/// then continues exactly as the interface's default method does.  Its log is the full presentation sequence (composite nodes
/// and leaves) that `Visitor!SProgram` prescribes.
pub struct StructRec {
    pub log: Vec<String>,
    pub fail_at: Option<usize>,
}
impl StructRec {
    fn enter(&mut self, label: &str) -> Result<(), String> {
        self.log.push(label.to_string());
        if Some(self.log.len()) == self.fail_at {
            Err(format!("fail@{}", self.log.len()))
        } else {
            Ok(())
        }
    }
}
impl Visit for StructRec {
    type Output = ();
    type Error = String;
}
impl VisitExpr for StructRec {
    fn visit_assignment_lhs(&mut self, a: &AssignmentLHS) -> visit::Result<Self> {
        self.enter("lhs")?;
        match a {
            AssignmentLHS::Identifier(i) => self.visit_identifier(i),
            AssignmentLHS::ArraySubscript(a) => self.visit_array_subscript(a),
        }
    }
    fn visit_assignment_rhs(&mut self, a: &AssignmentRHS) -> visit::Result<Self> {
        self.enter("rhs")?;
        match a {
            AssignmentRHS::ExpressionList(e) => self.visit_expression_list(e),
        }
    }
    fn visit_poetic_number_assignment_rhs(&mut self, p: &PoeticNumberAssignmentRHS) -> visit::Result<Self> {
        self.enter("pnrhs")?;
        match p {
            PoeticNumberAssignmentRHS::Expression(e) => self.visit_expression(e),
            PoeticNumberAssignmentRHS::PoeticNumberLiteral(p) => self.visit_poetic_number_literal(p),
        }
    }
    fn visit_poetic_number_literal(&mut self, p: &PoeticNumberLiteral) -> visit::Result<Self> {
        self.enter("plit")?;
        for e in p.elems.iter() {
            self.visit_poetic_number_literal_elem(e)?;
        }
        Ok(())
    }
    fn visit_poetic_number_literal_elem(&mut self, p: &PoeticNumberLiteralElem) -> visit::Result<Self> {
        let l = match p {
            PoeticNumberLiteralElem::Word(w) => format!("pw:{}", jv::abstractise(w)),
            PoeticNumberLiteralElem::WordSuffix(w) => format!("ps:{}", jv::abstractise(w)),
            PoeticNumberLiteralElem::Dot => "pd".into(),
        };
        self.enter(&l)
    }
    fn visit_array_push_rhs(&mut self, a: &ArrayPushRHS) -> visit::Result<Self> {
        self.enter("pushrhs")?;
        match a {
            ArrayPushRHS::ExpressionList(e) => self.visit_expression_list(e),
            ArrayPushRHS::PoeticNumberLiteral(p) => self.visit_poetic_number_literal(p),
        }
    }
    fn visit_array_pop_expr(&mut self, a: &ArrayPopExpr) -> visit::Result<Self> {
        self.enter("pop")?;
        self.visit_primary_expression(&a.array)
    }
    fn visit_binary_operator(&mut self, o: BinaryOperator) -> visit::Result<Self> {
        self.enter(&format!("op:{}", op_name(o)))
    }
    fn visit_unary_operator(&mut self, o: UnaryOperator) -> visit::Result<Self> {
        self.enter(&format!("un:{}", if o == UnaryOperator::Minus { "neg" } else { "not" }))
    }
    fn visit_expression_list(&mut self, e: &ExpressionList) -> visit::Result<Self> {
        self.enter("elist")?;
        self.visit_expression(&e.first)?;
        for x in e.rest.iter() {
            self.visit_expression(x)?;
        }
        Ok(())
    }
    fn visit_expression(&mut self, e: &Expression) -> visit::Result<Self> {
        self.enter("expr")?;
        match e {
            Expression::PrimaryExpression(e) => self.visit_primary_expression(e),
            Expression::BinaryExpression(e) => self.visit_binary_expression(e),
            Expression::UnaryExpression(e) => self.visit_unary_expression(e),
        }
    }
    fn visit_primary_expression(&mut self, e: &PrimaryExpression) -> visit::Result<Self> {
        self.enter("prim")?;
        match e {
            PrimaryExpression::Literal(e) => self.visit_literal_expression(e),
            PrimaryExpression::Identifier(i) => self.visit_identifier(i),
            PrimaryExpression::ArraySubscript(a) => self.visit_array_subscript(a),
            PrimaryExpression::FunctionCall(f) => self.visit_function_call(f),
            PrimaryExpression::ArrayPop(a) => self.visit_array_pop_expr(a),
        }
    }
    fn visit_binary_expression(&mut self, e: &BinaryExpression) -> visit::Result<Self> {
        self.enter("bin")?;
        self.visit_expression(&e.lhs)?;
        self.visit_binary_operator(e.operator)?;
        self.visit_expression_list(&e.rhs)
    }
    fn visit_unary_expression(&mut self, e: &UnaryExpression) -> visit::Result<Self> {
        self.enter("unary")?;
        self.visit_unary_operator(e.operator)?;
        self.visit_expression(&e.operand)
    }
    fn visit_array_subscript(&mut self, a: &ArraySubscript) -> visit::Result<Self> {
        self.enter("sub")?;
        self.visit_primary_expression(&a.array)?;
        self.visit_primary_expression(&a.subscript)
    }
    fn visit_literal_expression(&mut self, e: &WithRange<LiteralExpression>) -> visit::Result<Self> {
        let l = match &e.0 {
            LiteralExpression::Mysterious => "lit:mysterious".into(),
            LiteralExpression::Null => "lit:null".into(),
            LiteralExpression::Boolean(b) => format!("lit:{}", b),
            LiteralExpression::Number(_) => "lit:number".into(),
            LiteralExpression::String(s) => format!("lit:str:{}", jv::abstractise(s)),
        };
        self.enter(&l)
    }
    fn visit_function_call(&mut self, f: &FunctionCall) -> visit::Result<Self> {
        self.enter("call")?;
        self.visit_variable_name(f.name.as_ref())?;
        for a in f.args.iter() {
            self.visit_expression(a)?;
        }
        Ok(())
    }
    fn visit_identifier(&mut self, i: &WithRange<Identifier>) -> visit::Result<Self> {
        self.enter("ident")?;
        match &i.0 {
            Identifier::VariableName(n) => self.visit_variable_name(WithRange(&n, i.1.clone())),
            Identifier::Pronoun => self.visit_pronoun(i.1.clone()),
        }
    }
    fn visit_pronoun(&mut self, _: SourceRange) -> visit::Result<Self> {
        self.enter("pro")
    }
    fn visit_variable_name(&mut self, n: WithRange<&VariableName>) -> visit::Result<Self> {
        self.enter("name")?;
        match n.0 {
            VariableName::Simple(x) => self.visit_simple_identifier(WithRange(&x, n.1.clone())),
            VariableName::Common(x) => self.visit_common_identifier(WithRange(&x, n.1.clone())),
            VariableName::Proper(x) => self.visit_proper_identifier(WithRange(&x, n.1.clone())),
        }
    }
    fn visit_simple_identifier(&mut self, n: WithRange<&SimpleIdentifier>) -> visit::Result<Self> {
        self.enter(&format!("id:{}", n.0 .0))
    }
    fn visit_common_identifier(&mut self, n: WithRange<&CommonIdentifier>) -> visit::Result<Self> {
        self.enter(&format!("id:{} {}", n.0 .0, n.0 .1))
    }
    fn visit_proper_identifier(&mut self, n: WithRange<&ProperIdentifier>) -> visit::Result<Self> {
        self.enter(&format!("id:{}", n.0 .0.join(" ")))
    }
}

pub fn check_visit(rec: &J) -> Verdict {
    let naming = Naming::default();
    let prog = Builder { naming: &naming }.program(&rec["prog"]);
    let exp_log: Vec<String> = rec["log"].as_array().unwrap().iter().map(|x| x.as_str().unwrap().to_string()).collect();
    let walk = |fail_at: Option<usize>| {
        catch_unwind(AssertUnwindSafe(|| {
            let mut r = ExprVisitorRunner::with_inner(Recorder { log: Vec::new(), fail_at });
            let out = r.visit_program(&prog);
            (out, r.inner().log)
        }))
    };
    let (out, log) = match walk(None) {
        Ok(x) => x,
        Err(p) => return Verdict::viol(format!("visitor runner panicked: {}", panic_msg(p)), J::Null),
    };
    if log != exp_log {
        return Verdict::viol("callback sequence differs from the model".into(), json!({"log": log}));
    }
    match out {
        Ok(t) => {
            if t.to_json() != rec["term"] {
                return Verdict::viol("fold of the callback results differs from the model".into(), json!({"term": t.to_json()}));
            }
        }
        Err(e) => return Verdict::viol(format!("walk failed without a failing callback: {}", e), J::Null),
    }
    // stop at the first error, for every choice of the failing callback
    for k in 1..=exp_log.len() {
        match walk(Some(k)) {
            Ok((out, log)) => {
                if out != Err(format!("fail@{}", k)) {
                    return Verdict::viol(format!("callback {} failed but the walk returned {:?}", k, out.map(|t| t.to_json())), J::Null);
                }
                if log.len() != k || log[..] != exp_log[..k] {
                    return Verdict::viol(
                        format!("callback {} failed but {} callbacks ran (the walk must stop at the first error)", k, log.len()),
                        json!({"log": log}),
                    );
                }
            }
            Err(p) => return Verdict::viol(format!("visitor runner panicked: {}", panic_msg(p)), J::Null),
        }
    }
    // the full presentation sequence (composite nodes too), and stopping at every position of it
    if let Some(full) = rec.get("full").and_then(|f| f.as_array()) {
        let exp_full: Vec<String> = full.iter().map(|x| x.as_str().unwrap().to_string()).collect();
        let swalk = |fail_at: Option<usize>| {
            catch_unwind(AssertUnwindSafe(|| {
                let mut r = ExprVisitorRunner::with_inner(StructRec { log: Vec::new(), fail_at });
                let out = r.visit_program(&prog);
                (out, r.inner().log)
            }))
        };
        match swalk(None) {
            Ok((Ok(()), log)) => {
                if log != exp_full {
                    let at = log.iter().zip(exp_full.iter()).position(|(a, b)| a != b).unwrap_or(log.len().min(exp_full.len()));
                    return Verdict::viol(
                        format!("presentation sequence differs from the model at position {}: {:?} where the model has {:?}", at + 1, log.get(at), exp_full.get(at)),
                        json!({"full": log}),
                    );
                }
            }
            Ok((Err(e), _)) => return Verdict::viol(format!("walk failed without a failing callback: {}", e), J::Null),
            Err(p) => return Verdict::viol(format!("visitor runner panicked: {}", panic_msg(p)), J::Null),
        }
        for k in 1..=exp_full.len() {
            match swalk(Some(k)) {
                Ok((out, log)) => {
                    if out != Err(format!("fail@{}", k)) || log.len() != k {
                        return Verdict::viol(
                            format!("presentation {} ({}) failed but the walk returned {:?} after {} presentations", k, exp_full[k - 1], out, log.len()),
                            json!({"full": log}),
                        );
                    }
                }
                Err(p) => return Verdict::viol(format!("visitor runner panicked: {}", panic_msg(p)), J::Null),
            }
        }
    }
    Verdict::ok(exp_log.len() > 1)
}
