//! Recorder for LexTrace: seeded random texts over the model alphabet, lexed by the real lexer.

use rand::rngs::StdRng;
use rand::{Rng, SeedableRng};
use serde_json::json;
use std::io::Write;

use super::lex::{concretise_src, tokens_json};

const SINGLE: &[&str] = &[
    "x", "y", "s", "r", "e", "n", "i", "t", "a", "X", "S", "A", "1", "0", "5", ".", ",", " ", " ", " ", "\n", "\n", "'", "\"",
    "(", ")", "-", "+", "*", "/", "_", "<", ">", "=", "&", "!", "?", ";", ":", "\t", "\r", "~", "^", "%", "$", "@", "`", "#", "|", "\\", "\u{c}",
];
const FRAGS: &[&str] = &[
    "say ", "put ", " into ", "let ", " be ", "if ", "else", "while ", "'s ", "'re ", "'n'", "it's ", "ain't ", "\"a\nb\"", "\"x\"'s",
    "(c)", "(c\nd)'re", "1.5", ".5", "5.", "1e5", "1.2.3", "ab1", "_x", "is ", "isn't", "the ", "My ", "Tom Sawyer ", "~clair ",
    "^mile's ", "%'s", "$'re", "@", "1@", "`", "#", "|", " , ", ". ", "\n\n", "<=", ">= ", "rock'n'roll", "x''' ", "a's's",
    "says hi \"there", "(open", "\"open\n", "takes ", "taking ", "mysterious", "MYSTERIOUS", "%nock ", "nothing", "\"C:\\\"", "(\\)", "\\\"",
];

pub fn gen_text(rng: &mut StdRng, maxlen: usize) -> String {
    let target = rng.gen_range(0..=maxlen);
    let mode = rng.gen_range(0..3);
    let mut s = String::new();
    while s.chars().count() < target {
        let use_frag = match mode {
            0 => false,
            1 => true,
            _ => rng.gen_bool(0.5),
        };
        if use_frag {
            s.push_str(FRAGS[rng.gen_range(0..FRAGS.len())]);
        } else {
            s.push_str(SINGLE[rng.gen_range(0..SINGLE.len())]);
        }
    }
    s
}

pub fn record(args: &[String]) -> i32 {
    let mut seed = 1u64;
    let mut n = 200usize;
    let mut maxlen = 120usize;
    let mut out: Option<String> = None;
    let mut i = 0;
    while i < args.len() {
        match args[i].as_str() {
            "--seed" => {
                seed = args[i + 1].parse().unwrap();
                i += 1
            }
            "--n" => {
                n = args[i + 1].parse().unwrap();
                i += 1
            }
            "--maxlen" => {
                maxlen = args[i + 1].parse().unwrap();
                i += 1
            }
            "--out" => {
                out = Some(args[i + 1].clone());
                i += 1
            }
            a => {
                eprintln!("unknown option {}", a);
                return 2;
            }
        }
        i += 1;
    }
    let mut rng = StdRng::seed_from_u64(seed);
    let mut f = std::fs::File::create(out.expect("--out required")).expect("cannot create trace file");
    for _ in 0..n {
        let model = gen_text(&mut rng, maxlen);
        let text = concretise_src(&model);
        let toks = match std::panic::catch_unwind(|| tokens_json(&text)) {
            Ok(t) => t,
            Err(_) => {
                // a crash of the lexer is recorded as a stream no specification accepts
                vec![json!({"id":"PANIC","b":0,"e":0,"sl":0,"sc":0,"el":0,"ec":0})]
            }
        };
        writeln!(f, "{}", json!({"src": model, "toks": toks})).unwrap();
    }
    0
}
