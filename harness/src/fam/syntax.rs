//! Family `syntax` (C02): a rendering of a tree must parse to exactly that tree (positions erased).

use serde_json::{json, Value as J};
use std::collections::HashMap;
use std::panic::{catch_unwind, AssertUnwindSafe};

use crate::astout::{erase_lines, Out};
use crate::exec::{name_json, panic_msg};
use crate::fam::exec::naming_of;
use crate::fam::lex::concretise_src;
use crate::Verdict;

pub fn back_map(rec: &J) -> HashMap<String, String> {
    let naming = naming_of(rec);
    let mut back = HashMap::new();
    for (abs, v) in &naming.map {
        for n in v {
            back.insert(name_json(n).to_string(), abs.clone());
        }
    }
    back
}

pub fn parse_to_json(rec: &J) -> Result<Result<J, String>, String> {
    let text = concretise_src(rec["text"].as_str().unwrap());
    let back = back_map(rec);
    catch_unwind(AssertUnwindSafe(|| match rrss::frontend::parser::parse(&text) {
        Ok(p) => Ok(Out { back: &back }.program(&p)),
        Err(e) => Err(e.to_string()),
    }))
    .map_err(panic_msg)
}

pub fn check(rec: &J) -> Verdict {
    let want = erase_lines(&rec["tree"]);
    match parse_to_json(rec) {
        Err(p) => Verdict::viol(format!("parser panicked: {}", p), J::Null),
        Ok(Err(e)) => Verdict::viol(format!("a rendering of a valid tree is rejected: {}", e), J::Null),
        Ok(Ok(got)) => {
            if got == want {
                Verdict::ok(true)
            } else {
                Verdict::viol("the rendering parses to a different tree".into(), json!({"tree": got}))
            }
        }
    }
}
