//! Family `syntax` (C02): a rendering of a tree must parse to exactly that tree (positions erased).

use serde_json::{json, Value as J};
use std::collections::HashMap;
use std::panic::{catch_unwind, AssertUnwindSafe};

use crate::astout::{erase_lines, Out};
use crate::exec::{name_json, panic_msg};
use crate::fam::exec::naming_of;
use crate::fam::lex::concretise_src;
use crate::Verdict;

pub fn back_map(rec: &J) -> HashMap<String, String> {
    let naming = naming_of(rec);
    let mut back = HashMap::new();
    for (abs, v) in &naming.map {
        for n in v {
            back.insert(name_json(n).to_string(), abs.clone());
        }
    }
    back
}

pub fn parse_to_json(rec: &J) -> Result<Result<J, String>, String> {
    let text = concretise_src(rec["text"].as_str().unwrap());
    let back = back_map(rec);
    catch_unwind(AssertUnwindSafe(|| match rrss::frontend::parser::parse(&text) {
        Ok(p) => Ok(Out { back: &back, corpus: false }.program(&p)),
        Err(e) => Err(e.to_string()),
    }))
    .map_err(panic_msg)
}

pub fn check(rec: &J) -> Verdict {
    let want = erase_lines(&rec["tree"]);
    match parse_to_json(rec) {
        Err(p) => Verdict::viol(format!("parser panicked: {}", p), J::Null),
        Ok(Err(e)) => Verdict::viol(format!("a rendering of a valid tree is rejected: {}", e), J::Null),
        Ok(Ok(got)) => {
            if got == want {
                Verdict::ok(true)
            } else {
                Verdict::viol("the rendering parses to a different tree".into(), json!({"tree": got}))
            }
        }
    }
}

/// Family `poetic` (C11): besides the tree, the literal's value is the numeral its words spell, and a poetic string
/// is the exact text of its line.
pub fn check_poetic(rec: &J) -> Verdict {
    if rec["fam"] == "saysopen" {
        // outside the property's quantifier; the recorded finding is that the literal runs on over the following lines
        let text = concretise_src(rec["text"].as_str().unwrap());
        let want = rec["str"].as_str().unwrap();
        return match catch_unwind(AssertUnwindSafe(|| rrss::frontend::parser::parse(&text))) {
            Err(p) => Verdict::viol(format!("parser panicked: {}", panic_msg(p)), J::Null),
            Ok(Err(e)) => Verdict::viol(format!("poetic string with an open delimiter is rejected: {}", e), J::Null),
            Ok(Ok(p)) => {
                use rrss::frontend::ast::*;
                let got = match p.code.first() {
                    Some(Block::NonEmpty(ss)) => match ss.first() {
                        Some(Statement::PoeticAssignment(PoeticAssignment::String(s))) => Some(s.rhs.clone()),
                        _ => None,
                    },
                    _ => None,
                };
                match got {
                    Some(g) if g == want => Verdict::ok(true),
                    Some(g) if g.starts_with(want) && g[want.len()..].starts_with('\n') => Verdict::viol(
                        "unclosed-delimiter-swallows-lines: a poetic string that leaves a quote or parenthesis open runs on over the following lines".into(),
                        json!({"rhs": g}),
                    ),
                    other => Verdict::viol(format!("poetic string is {:?}, the line says {:?}", other, want), J::Null),
                }
            }
        };
    }
    let v = check(rec);
    if v.st != "ok" {
        return v;
    }
    let text = concretise_src(rec["text"].as_str().unwrap());
    let prog = match rrss::frontend::parser::parse(&text) {
        Ok(p) => p,
        Err(e) => return Verdict::viol(format!("rejected: {}", e), J::Null),
    };
    use rrss::frontend::ast::*;
    let lit = match prog.code.first().and_then(|b| match b { Block::NonEmpty(ss) => ss.first(), _ => None }) {
        Some(Statement::PoeticAssignment(PoeticAssignment::Number(p))) => match &p.rhs {
            PoeticNumberAssignmentRHS::PoeticNumberLiteral(l) => Some(l.clone()),
            _ => None,
        },
        Some(Statement::ArrayPush(a)) => match &a.value {
            Some(ArrayPushRHS::PoeticNumberLiteral(l)) => Some(l.clone()),
            _ => None,
        },
        _ => None,
    };
    let run = crate::exec::run(&prog, &crate::exec::RunCfg::default());
    if run.is_panic() {
        return Verdict::viol(format!("interpreter {}", run.outcome_str()), J::Null);
    }
    if let Some(l) = lit {
        let digits = |k: &str| -> String { rec["digits"][k].as_array().unwrap().iter().map(|d| d.as_u64().unwrap().to_string()).collect() };
        let (ip, fp) = (digits("ip"), digits("fp"));
        let numeral = format!("{}.{}", if ip.is_empty() { "0" } else { &ip }, if fp.is_empty() { "0" } else { &fp });
        let want: f64 = numeral.parse().unwrap();
        let got = match catch_unwind(AssertUnwindSafe(|| l.compute_value())) {
            Ok(g) => g,
            Err(p) => return Verdict::viol(format!("computing the literal's value panicked: {}", panic_msg(p)), J::Null),
        };
        let exact = fp.is_empty() && want < 9007199254740992.0;
        let ok = if exact { got == want } else { (got - want).abs() <= 4.0 * f64::EPSILON * want.abs() };
        if !ok {
            return Verdict::viol(format!("the literal denotes {} but its words spell {}", got, numeral), J::Null);
        }
        // the interpreter assigns exactly that value
        if let Some(ev) = run.last_stmt() {
            let back = back_map(rec);
            let mut seen = None;
            for scope in &ev.scopes {
                for (k, e) in scope {
                    if back.get(&name_json(k).to_string()).map(|s| s.as_str()) == Some("x") {
                        if let rrss::verif::EntrySnapshot::Var(v) = e {
                            seen = Some(v.clone());
                        }
                    }
                }
            }
            use rrss::exec::val::Val;
            let holds = match seen {
                Some(Val::Number(f)) => f == got,
                Some(Val::Array(a)) => matches!(a.verif_parts().0.last(), Some(Val::Number(f)) if *f == got),
                _ => false,
            };
            if !holds {
                return Verdict::viol("the interpreter does not assign the literal's value".into(), J::Null);
            }
        }
    }
    Verdict::ok(true)
}

/// Family `fault` (C13): the text must be rejected, and the error must name the line of the fault.
/// The entry point the command-line tool uses for all three sub-commands must give the text the same verdict, with the same
/// line in its message, as the parser itself.
fn cli_layer_disagrees(text: &str, front: &Result<String, String>) -> Option<String> {
    let line_of = |m: &str| m.find("(line ").and_then(|i| m[i + 6..].split(')').next().and_then(|n| n.parse::<u64>().ok()));
    let cli = match catch_unwind(AssertUnwindSafe(|| rrss::cli::parser::parse(text).map(|p| format!("{:?}", p)).map_err(|e| e.to_string()))) {
        Ok(r) => r,
        Err(p) => return Some(format!("cli::parser::parse panicked: {}", panic_msg(p))),
    };
    match (front, &cli) {
        (Ok(a), Ok(b)) if a == b => None,
        (Ok(_), Ok(_)) => Some("cli::parser::parse returns a different tree than the parser".into()),
        (Err(a), Err(b)) if line_of(a) == line_of(b) => None,
        (Err(a), Err(b)) => Some(format!("the parser says `{}` but cli::parser::parse says `{}`", a, b)),
        (Ok(_), Err(b)) => Some(format!("the parser accepts the text but cli::parser::parse says `{}`", b)),
        (Err(a), Ok(_)) => Some(format!("the parser says `{}` but cli::parser::parse accepts the text", a)),
    }
}

pub fn check_fault(rec: &J) -> Verdict {
    let text = concretise_src(rec["text"].as_str().unwrap());
    let want = rec["line"].as_u64().unwrap();
    let r = catch_unwind(AssertUnwindSafe(|| rrss::frontend::parser::parse(&text).map(|p| format!("{:?}", p)).map_err(|e| e.to_string())));
    if let Ok(front) = &r {
        if let Some(m) = cli_layer_disagrees(&text, front) {
            return Verdict::viol(m, J::Null);
        }
    }
    match r {
        Err(p) => Verdict::viol(format!("parser panicked: {}", panic_msg(p)), J::Null),
        Ok(Ok(tree)) => Verdict::viol("a program with a syntax fault is accepted".into(), json!({"tree": tree.chars().take(400).collect::<String>()})),
        Ok(Err(msg)) => {
            let line = msg
                .strip_prefix("Parse error (line ")
                .and_then(|r| r.split(')').next())
                .and_then(|n| n.parse::<u64>().ok());
            if line == Some(want) {
                Verdict::ok(true)
            } else {
                Verdict::viol(format!("the fault is on line {} but the error says: {}", want, msg), J::Null)
            }
        }
    }
}

/// Family `e2e`: a rendered program goes through the real front end, interpreter and linter; the run must be the
/// model's run (bytes, reads, outcome, environment after every statement, statement lines = physical lines) and the
/// lint report the model's report.
pub fn check_e2e(rec: &J) -> Verdict {
    use crate::exec::{self as ex, Ev};
    use crate::fam::exec::{event_matches, run_cfg};
    let text = concretise_src(rec["text"].as_str().unwrap());
    let back = back_map(rec);
    let prog = match catch_unwind(AssertUnwindSafe(|| rrss::frontend::parser::parse(&text).map_err(|e| e.to_string()))) {
        Err(p) => return Verdict::viol(format!("parser panicked: {}", panic_msg(p)), J::Null),
        Ok(Err(e)) => return Verdict::viol(format!("a rendering of a valid program is rejected: {}", e), J::Null),
        Ok(Ok(p)) => p,
    };
    let st = rec["st"].as_str().unwrap();
    if st == "blowup" {
        return Verdict::skip("executing it needs unbounded time or memory");
    }
    if st == "fuel" {
        return Verdict::skip("model ran out of fuel");
    }
    let obs = ex::run(&prog, &run_cfg(rec));
    if obs.is_panic() {
        return Verdict::viol(format!("interpreter {}", obs.outcome_str()), J::Null);
    }
    let multiline_noise = rec["text"].as_str().unwrap().contains("(a\nb)");
    // what is compared is the business of the property whose check replays the family: the run (C04 C05 C14 C15 ...), the lint
    // report (C18 C19), or both; a crash of either is always reported
    let parts = std::env::var("VH_E2E_PARTS").unwrap_or_else(|_| "all".into());
    if st != "unspec" && parts != "lint" {
        if obs.is_ok() != (st == "ok") {
            return Verdict::viol(format!("outcome {} where the model ends with `{}`", obs.outcome_str(), st), json!({"out": obs.out_text()}));
        }
        let out = crate::jv::abstractise(&obs.out_text());
        if out != rec["out"].as_str().unwrap() {
            return Verdict::viol("bytes written differ from the model".into(), json!({"out": out}));
        }
        let reads = obs.log.iter().filter(|e| matches!(e, Ev::Read(_) | Ev::ReadFail)).count() as u64;
        if reads != rec["rd"].as_u64().unwrap() {
            return Verdict::viol(format!("{} read calls issued, model {}", reads, rec["rd"]), J::Null);
        }
        let evs: Vec<J> = obs.log.iter().filter_map(|e| match e { Ev::Stmt(s) => Some(ex::stmt_json(s)), _ => None }).collect();
        let empty = Vec::new();
        let exp = if rec["noevs"] == true { &empty } else { rec["evs"].as_array().unwrap() };
        if exp.len() != evs.len() {
            return Verdict::viol(format!("{} statements completed, model completes {}", evs.len(), exp.len()), J::Null);
        }
        for (i, (e, o)) in exp.iter().zip(&evs).enumerate() {
            let mut o2 = o.clone();
            for scope in o2["scopes"].as_array_mut().unwrap() {
                for entry in scope.as_array_mut().unwrap() {
                    if let Some(abs) = back.get(&entry["key"].to_string()) {
                        entry["key"] = json!(["simple", abs]);
                    }
                }
            }
            if !o2["last"].is_null() {
                if let Some(abs) = back.get(&o2["last"].to_string()) {
                    o2["last"] = json!(["simple", abs]);
                }
            }
            let mut e2 = e.clone();
            if multiline_noise {
                e2["line"] = o2["line"].clone();
            }
            if let Err(m) = event_matches(&e2, &o2) {
                return Verdict::viol(format!("statement event {}: {}", i + 1, m), json!({"event": o}));
            }
        }
    }
    // lint
    let diags = match catch_unwind(AssertUnwindSafe(|| rrss::linter::standard_linter().run(&prog).diags)) {
        Ok(d) => d,
        Err(p) => return Verdict::viol(format!("linter panicked: {}", panic_msg(p)), J::Null),
    };
    // rendered spelling (case-folded) -> abstract name
    let mut by_text = HashMap::new();
    for (abs, v) in &naming_of(rec).map {
        for n in v {
            use rrss::linter::render::Render;
            by_text.insert(n.render().to_lowercase(), abs.clone());
        }
    }
    // Under a non-canonical tape the mentions of one name are spelled in different letter cases; whether two such
    // spellings are "the same name" for the repeated-identifier pass is not settled by C19 (the pass compares
    // spellings), so that pass is compared on canonical renderings only.
    let canonical = rec["tape"].as_array().map_or(true, |t| t.is_empty());
    let keep = |d: &J| canonical || d["pass"] != "repeat";
    let obs_diags: Vec<J> = diags.iter().map(crate::fam::lint::diag_json).filter(|d| keep(d)).collect();
    if parts == "run" {
        return Verdict::ok(true);
    }
    let exp_all = rec["report"].as_array().unwrap();
    let exp: Vec<&J> = exp_all.iter().filter(|d| keep(d)).collect();
    let fail = |m: String| Verdict::viol(m, json!({"report": obs_diags.clone()}));
    if exp.len() != obs_diags.len() {
        return fail(format!("lint: {} diagnostics, model {}", obs_diags.len(), exp.len()));
    }
    for (i, (e, o)) in exp.iter().copied().zip(&obs_diags).enumerate() {
        let ot = o["target"].as_str().unwrap_or("?");
        let abs = by_text.get(&concretise_src(ot).to_lowercase()).cloned().unwrap_or_else(|| ot.to_string());
        if e["pass"] != o["pass"] || (!multiline_noise && e["line"] != o["line"]) || e["target"].as_str() != Some(abs.as_str()) {
            return fail(format!("lint diagnostic {}: {} where the model reports {}", i + 1, o, e));
        }
        if e["pass"] == "boring" && e["det"] == true {
            if e["value"] != o["value"] {
                return fail(format!("lint diagnostic {}: value {} (model {})", i + 1, o["value"], e["value"]));
            }
            // (suggestion wording is not compared; C18's own check judges suggestions by what they do)
        }
    }
    Verdict::ok(true)
}

fn norm_model_names(j: &J) -> J {
    // model trees carry concrete name tuples; bring them to the case-folded string form `Out` uses without a naming
    let fold = |a: &J| -> J { J::String(J::Array(a.as_array().unwrap().iter().enumerate().map(|(i, w)| if i == 0 { w.clone() } else { json!(concretise_src(w.as_str().unwrap()).to_lowercase()) }).collect()).to_string()) };
    match j {
        J::Object(m) => J::Object(
            m.iter()
                .filter(|(k, _)| k.as_str() != "line")
                .map(|(k, v)| {
                    let is_node = m.contains_key("e") || m.contains_key("s");
                    if is_node && matches!(k.as_str(), "n" | "f" | "name") && v.is_array() {
                        (k.clone(), fold(v))
                    } else if is_node && k == "ps" {
                        (k.clone(), J::Array(v.as_array().unwrap().iter().map(|x| fold(x)).collect()))
                    } else {
                        (k.clone(), norm_model_names(v))
                    }
                })
                .collect(),
        ),
        J::Array(a) => J::Array(a.iter().map(norm_model_names).collect()),
        x => x.clone(),
    }
}

fn tree_matches(exp: &J, obs: &J) -> bool {
    match (exp, obs) {
        (J::Object(e), J::Object(o)) => {
            if e.get("t").map_or(false, |t| t == "unk") || (e.get("t").map_or(false, |t| t == "num") && e.get("c").map_or(false, |c| c == "inexact")) {
                return o.get("t").map_or(false, |t| t == "num");
            }
            if e.get("t").map_or(false, |t| t == "str") {
                return o.get("t").map_or(false, |t| t == "str") && e.get("s") == o.get("s");
            }
            e.len() == o.len() && e.iter().all(|(k, v)| o.get(k).map_or(false, |w| tree_matches(v, w)))
        }
        (J::Array(e), J::Array(o)) => e.len() == o.len() && e.iter().zip(o).all(|(a, b)| tree_matches(a, b)),
        (a, b) => a == b,
    }
}

/// Family `verdict`: the recogniser model's verdict on an arbitrary text (accepted with this tree / rejected at this
/// line) must be the real parser's.
pub fn check_verdict(rec: &J) -> Verdict {
    let text = concretise_src(rec["text"].as_str().unwrap());
    let back = HashMap::new();
    let got = catch_unwind(AssertUnwindSafe(|| match rrss::frontend::parser::parse(&text) {
        Ok(p) => Ok(Out { back: &back, corpus: false }.program(&p)),
        Err(e) => Err(e.to_string()),
    }));
    let v = &rec["v"];
    match got {
        Err(p) => Verdict::viol(format!("parser panicked: {}", panic_msg(p)), J::Null),
        Ok(Ok(tree)) => {
            if v["ok"] != true {
                return Verdict::viol(format!("accepted, but the recogniser model rejects it at line {}", v["line"]), json!({"tree": tree}));
            }
            let want = norm_model_names(&v["tree"]);
            if tree_matches(&want, &tree) {
                Verdict::ok(true)
            } else {
                Verdict::viol("accepted with a different tree than the recogniser model's".into(), json!({"tree": tree, "model": want}))
            }
        }
        Ok(Err(msg)) => {
            if v["ok"] == true {
                return Verdict::viol(format!("rejected ({}) but the recogniser model accepts it", msg), J::Null);
            }
            let line = msg.strip_prefix("Parse error (line ").and_then(|r| r.split(')').next()).and_then(|n| n.parse::<i64>().ok());
            if line == v["line"].as_i64() {
                Verdict::ok(!text.trim().is_empty())
            } else {
                Verdict::viol(format!("rejected with `{}` but the recogniser model says line {}", msg, v["line"]), J::Null)
            }
        }
    }
}

/// Family `dettext` (C10, text level): parsing and linting the same text repeatedly, in this process and in a second one,
/// gives byte-identical syntax-tree dumps, error messages and lint reports.
pub fn text_outcome(rec: &J) -> Verdict {
    let text = concretise_src(rec["text"].as_str().unwrap());
    let (dump, lint) = match rrss::frontend::parser::parse(&text) {
        Ok(p) => (format!("{:#?}", p), rrss::linter::standard_linter().run(&p).diags.iter().map(|d| format!("{}|{}|{:?}", d.line, d.issue, d.suggestions)).collect::<Vec<_>>().join("\n")),
        Err(e) => (format!("ERR {}", e), String::new()),
    };
    // the entry point the command-line tool uses (parse + standard linter in one call)
    let fmt = |ds: &[rrss::linter::Diag]| ds.iter().map(|d| format!("{}|{}|{:?}", d.line, d.issue, d.suggestions)).collect::<Vec<_>>().join("\n");
    // (through a trait, so that the harness still builds if the entry point's result type changes)
    let cli_lint = rrss::cli::linter::lint(&text).diags_or_nothing().map_or(String::new(), |ds| fmt(&ds));
    Verdict::ok_with(true, json!({"dump": dump, "lint": lint, "cli_lint": cli_lint}))
}
trait LintEntryResult {
    fn diags_or_nothing(self) -> Option<Vec<rrss::linter::Diag>>;
}
impl<E> LintEntryResult for Result<rrss::linter::LinterResult, E> {
    fn diags_or_nothing(self) -> Option<Vec<rrss::linter::Diag>> {
        self.ok().map(|r| r.diags)
    }
}
impl LintEntryResult for rrss::linter::LinterResult {
    fn diags_or_nothing(self) -> Option<Vec<rrss::linter::Diag>> {
        Some(self.diags)
    }
}

pub fn check_dettext(rec: &J, helper: &mut Option<crate::Helper>) -> Verdict {
    let first = match catch_unwind(AssertUnwindSafe(|| text_outcome(rec).obs)) {
        Ok(o) => o,
        Err(p) => return Verdict::viol(format!("front end or linter panicked: {}", panic_msg(p)), J::Null),
    };
    if first["lint"] != first["cli_lint"] {
        return Verdict::viol("cli::linter::lint reports something else than a fresh standard linter on the same text (state carried over from an earlier call?)".into(), first);
    }
    for k in 0..3 {
        if text_outcome(rec).obs != first {
            return Verdict::viol(format!("repetition {} in the same process gives a different dump or lint report", k + 2), J::Null);
        }
    }
    let h = helper.get_or_insert_with(|| crate::Helper::spawn("textoutcome"));
    match h.ask(rec) {
        Some(other) if other == first => Verdict::ok(true),
        Some(_) => Verdict::viol("a second process gives a different dump or lint report".into(), J::Null),
        None => Verdict::viol("second process crashed on this text".into(), J::Null),
    }
}
