//! Family `syntax` (C02): a rendering of a tree must parse to exactly that tree (positions erased).

use serde_json::{json, Value as J};
use std::collections::HashMap;
use std::panic::{catch_unwind, AssertUnwindSafe};

use crate::astout::{erase_lines, Out};
use crate::exec::{name_json, panic_msg};
use crate::fam::exec::naming_of;
use crate::fam::lex::concretise_src;
use crate::Verdict;

pub fn back_map(rec: &J) -> HashMap<String, String> {
    let naming = naming_of(rec);
    let mut back = HashMap::new();
    for (abs, v) in &naming.map {
        for n in v {
            back.insert(name_json(n).to_string(), abs.clone());
        }
    }
    back
}

pub fn parse_to_json(rec: &J) -> Result<Result<J, String>, String> {
    let text = concretise_src(rec["text"].as_str().unwrap());
    let back = back_map(rec);
    catch_unwind(AssertUnwindSafe(|| match rrss::frontend::parser::parse(&text) {
        Ok(p) => Ok(Out { back: &back }.program(&p)),
        Err(e) => Err(e.to_string()),
    }))
    .map_err(panic_msg)
}

pub fn check(rec: &J) -> Verdict {
    let want = erase_lines(&rec["tree"]);
    match parse_to_json(rec) {
        Err(p) => Verdict::viol(format!("parser panicked: {}", p), J::Null),
        Ok(Err(e)) => Verdict::viol(format!("a rendering of a valid tree is rejected: {}", e), J::Null),
        Ok(Ok(got)) => {
            if got == want {
                Verdict::ok(true)
            } else {
                Verdict::viol("the rendering parses to a different tree".into(), json!({"tree": got}))
            }
        }
    }
}

/// Family `poetic` (C11): besides the tree, the literal's value is the numeral its words spell, and a poetic string
/// is the exact text of its line.
pub fn check_poetic(rec: &J) -> Verdict {
    if rec["fam"] == "saysopen" {
        // outside the property's quantifier; the recorded finding is that the literal runs on over the following lines
        let text = concretise_src(rec["text"].as_str().unwrap());
        let want = rec["str"].as_str().unwrap();
        return match catch_unwind(AssertUnwindSafe(|| rrss::frontend::parser::parse(&text))) {
            Err(p) => Verdict::viol(format!("parser panicked: {}", panic_msg(p)), J::Null),
            Ok(Err(e)) => Verdict::viol(format!("poetic string with an open delimiter is rejected: {}", e), J::Null),
            Ok(Ok(p)) => {
                use rrss::frontend::ast::*;
                let got = match p.code.first() {
                    Some(Block::NonEmpty(ss)) => match ss.first() {
                        Some(Statement::PoeticAssignment(PoeticAssignment::String(s))) => Some(s.rhs.clone()),
                        _ => None,
                    },
                    _ => None,
                };
                match got {
                    Some(g) if g == want => Verdict::ok(true),
                    Some(g) if g.starts_with(want) && g[want.len()..].starts_with('\n') => Verdict::viol(
                        "unclosed-delimiter-swallows-lines: a poetic string that leaves a quote or parenthesis open runs on over the following lines".into(),
                        json!({"rhs": g}),
                    ),
                    other => Verdict::viol(format!("poetic string is {:?}, the line says {:?}", other, want), J::Null),
                }
            }
        };
    }
    let v = check(rec);
    if v.st != "ok" {
        return v;
    }
    let text = concretise_src(rec["text"].as_str().unwrap());
    let prog = match rrss::frontend::parser::parse(&text) {
        Ok(p) => p,
        Err(e) => return Verdict::viol(format!("rejected: {}", e), J::Null),
    };
    use rrss::frontend::ast::*;
    let lit = match prog.code.first().and_then(|b| match b { Block::NonEmpty(ss) => ss.first(), _ => None }) {
        Some(Statement::PoeticAssignment(PoeticAssignment::Number(p))) => match &p.rhs {
            PoeticNumberAssignmentRHS::PoeticNumberLiteral(l) => Some(l.clone()),
            _ => None,
        },
        Some(Statement::ArrayPush(a)) => match &a.value {
            Some(ArrayPushRHS::PoeticNumberLiteral(l)) => Some(l.clone()),
            _ => None,
        },
        _ => None,
    };
    let run = crate::exec::run(&prog, &crate::exec::RunCfg::default());
    if run.is_panic() {
        return Verdict::viol(format!("interpreter {}", run.outcome_str()), J::Null);
    }
    if let Some(l) = lit {
        let digits = |k: &str| -> String { rec["digits"][k].as_array().unwrap().iter().map(|d| d.as_u64().unwrap().to_string()).collect() };
        let (ip, fp) = (digits("ip"), digits("fp"));
        let numeral = format!("{}.{}", if ip.is_empty() { "0" } else { &ip }, if fp.is_empty() { "0" } else { &fp });
        let want: f64 = numeral.parse().unwrap();
        let got = match catch_unwind(AssertUnwindSafe(|| l.compute_value())) {
            Ok(g) => g,
            Err(p) => return Verdict::viol(format!("computing the literal's value panicked: {}", panic_msg(p)), J::Null),
        };
        let exact = fp.is_empty() && want < 9007199254740992.0;
        let ok = if exact { got == want } else { (got - want).abs() <= 4.0 * f64::EPSILON * want.abs() };
        if !ok {
            return Verdict::viol(format!("the literal denotes {} but its words spell {}", got, numeral), J::Null);
        }
        // the interpreter assigns exactly that value
        if let Some(ev) = run.last_stmt() {
            let back = back_map(rec);
            let mut seen = None;
            for scope in &ev.scopes {
                for (k, e) in scope {
                    if back.get(&name_json(k).to_string()).map(|s| s.as_str()) == Some("x") {
                        if let rrss::verif::EntrySnapshot::Var(v) = e {
                            seen = Some(v.clone());
                        }
                    }
                }
            }
            use rrss::exec::val::Val;
            let holds = match seen {
                Some(Val::Number(f)) => f == got,
                Some(Val::Array(a)) => matches!(a.verif_parts().0.last(), Some(Val::Number(f)) if *f == got),
                _ => false,
            };
            if !holds {
                return Verdict::viol("the interpreter does not assign the literal's value".into(), J::Null);
            }
        }
    }
    Verdict::ok(true)
}

/// Family `fault` (C13): the text must be rejected, and the error must name the line of the fault.
pub fn check_fault(rec: &J) -> Verdict {
    let text = concretise_src(rec["text"].as_str().unwrap());
    let want = rec["line"].as_u64().unwrap();
    let r = catch_unwind(AssertUnwindSafe(|| rrss::frontend::parser::parse(&text).map(|p| format!("{:?}", p)).map_err(|e| e.to_string())));
    match r {
        Err(p) => Verdict::viol(format!("parser panicked: {}", panic_msg(p)), J::Null),
        Ok(Ok(tree)) => Verdict::viol("a program with a syntax fault is accepted".into(), json!({"tree": tree.chars().take(400).collect::<String>()})),
        Ok(Err(msg)) => {
            let line = msg
                .strip_prefix("Parse error (line ")
                .and_then(|r| r.split(')').next())
                .and_then(|n| n.parse::<u64>().ok());
            if line == Some(want) {
                Verdict::ok(true)
            } else {
                Verdict::viol(format!("the fault is on line {} but the error says: {}", want, msg), J::Null)
            }
        }
    }
}
