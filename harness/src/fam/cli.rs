//! Recorder for CliTrace (C20): runs the built `rrss` binary on a file and records, next to the process observation,
//! what the library does in-process with the same text and standard input.

use serde_json::{json, Value as J};
use std::io::Write;
use std::process::{Command, Stdio};

use crate::fam::lex::concretise_src;
use crate::sup::extract;

struct Proc {
    stdout: String,
    stderr: String,
    code: i32,
}

fn run_bin(bin: &str, args: &[&str], stdin: &[u8], merged: bool) -> Proc {
    let mut cmd = if merged {
        let mut c = Command::new("sh");
        let mut line = format!("exec '{}'", bin);
        for a in args {
            line.push_str(&format!(" '{}'", a));
        }
        line.push_str(" 2>&1");
        c.arg("-c").arg(line);
        c
    } else {
        let mut c = Command::new(bin);
        c.args(args);
        c
    };
    cmd.env_remove("CLICOLOR_FORCE").env("NO_COLOR", "1").stdin(Stdio::piped()).stdout(Stdio::piped()).stderr(Stdio::piped());
    let mut child = cmd.spawn().expect("cannot start the rrss binary");
    {
        let mut si = child.stdin.take().unwrap();
        let _ = si.write_all(stdin);
    }
    let out = child.wait_with_output().expect("cannot wait for rrss");
    Proc {
        stdout: String::from_utf8_lossy(&out.stdout).into_owned(),
        stderr: String::from_utf8_lossy(&out.stderr).into_owned(),
        code: out.status.code().unwrap_or(-1),
    }
}

fn lines_of(out: &str) -> Vec<String> {
    let mut v: Vec<String> = out.split('\n').map(|s| s.to_string()).collect();
    assert_eq!(v.pop().as_deref(), Some(""), "library output does not end with a line end");
    v
}

fn lib_outcome(cmd: &str, text: &str, stdin: &[u8]) -> J {
    match rrss::frontend::parser::parse(text) {
        Err(e) => json!({"k":"parse_error","msg":e.to_string()}),
        Ok(prog) => match cmd {
            "exec" => {
                let mut out = Vec::new();
                let r = rrss::exec::exec_using(stdin, &mut out, &prog);
                let out = String::from_utf8_lossy(&out).into_owned();
                json!({"k":"run","out":lines_of(&out),"err": match r { Ok(()) => json!([]), Err(e) => json!([e.to_string()]) }})
            }
            "lint" => {
                let ds = rrss::linter::standard_linter().run(&prog).diags;
                json!({"k":"diags","ds": ds.iter().map(|d| json!({"line":d.line,"issue":d.issue,"suggs":d.suggestions})).collect::<Vec<_>>()})
            }
            _ => json!({"k":"tree","dump":format!("{:#?}", prog)}),
        },
    }
}

pub fn record(args: &[String]) -> i32 {
    let mut input = None;
    let mut out = None;
    let mut bin = std::env::var("VH_RRSS_BIN").ok();
    let mut dir = std::env::temp_dir().to_string_lossy().into_owned();
    let mut i = 0;
    while i < args.len() {
        match args[i].as_str() {
            "--in" => { input = Some(args[i + 1].clone()); i += 1 }
            "--out" => { out = Some(args[i + 1].clone()); i += 1 }
            "--bin" => { bin = Some(args[i + 1].clone()); i += 1 }
            "--dir" => { dir = args[i + 1].clone(); i += 1 }
            "--seed" | "--n" | "--maxlen" => { i += 1 }
            a => { eprintln!("unknown option {}", a); return 2 }
        }
        i += 1;
    }
    let bin = bin.expect("--bin or VH_RRSS_BIN required");
    let mut f = std::fs::File::create(out.expect("--out required")).expect("cannot create trace file");
    let file = format!("{}/vh-cli-{}.rock", dir, std::process::id());
    let text_in = std::fs::read_to_string(input.expect("--in required")).expect("cannot read cases");
    let mut emit = |p: J, proc: &Proc, merged: &Proc| {
        writeln!(f, "{}", json!({"p": p, "proc": {"stdout": proc.stdout, "stderr": proc.stderr, "code": proc.code, "merged": merged.stdout}})).unwrap();
    };
    for line in text_in.lines() {
        let rec: J = match extract(line).and_then(|j| serde_json::from_str(&j).ok()) {
            Some(r) => r,
            None => continue,
        };
        let text = concretise_src(rec["text"].as_str().unwrap());
        let stdin: Vec<u8> = rec.get("inp").and_then(|x| x.as_array()).map_or(Vec::new(), |a| {
            a.iter().flat_map(|c| c.as_str().unwrap().as_bytes().to_vec()).collect()
        });
        std::fs::write(&file, &text).unwrap();
        for cmd in ["exec", "lint", "parse"] {
            let lib = lib_outcome(cmd, &text, &stdin);
            // the model's own run of the program, when it determines the outcome, must be what the library did
            if cmd == "exec" && lib["k"] == "run" {
                if let (Some(st), Some(mout)) = (rec.get("st").and_then(|x| x.as_str()), rec.get("out").and_then(|x| x.as_str())) {
                    let lib_out: String = lib["out"].as_array().unwrap().iter().map(|l| format!("{}\n", l.as_str().unwrap())).collect();
                    if (st == "ok" || st == "err") && (lib_out != mout || (st == "ok") != lib["err"].as_array().unwrap().is_empty()) {
                        let none = Proc { stdout: String::new(), stderr: String::new(), code: 0 };
                        emit(json!({"usage":"ok","file":"ok","cmd":cmd,"lib":{"k":"model-disagrees","lib":lib,"model_out":mout,"model_st":st}}), &none, &none);
                    }
                }
            }
            let p1 = run_bin(&bin, &[cmd, &file], &stdin, false);
            let p2 = run_bin(&bin, &[cmd, &file], &stdin, true);
            let p3 = run_bin(&bin, &[cmd, &file], &stdin, false);
            if p3.stdout != p1.stdout || p3.stderr != p1.stderr || p3.code != p1.code {
                // a second process must behave identically (C10 across processes)
                emit(json!({"usage":"ok","file":"ok","cmd":cmd,"lib":{"k":"nondeterministic"}}), &p3, &p2);
            }
            emit(json!({"usage":"ok","file":"ok","cmd":cmd,"lib":lib}), &p1, &p2);
        }
    }
    let _ = std::fs::remove_file(&file);
    // missing file and bad usage
    let dummy = json!({"k":"tree","dump":""});
    for cmd in ["exec", "lint", "parse"] {
        let a = [cmd, "/nonexistent/dir/none.rock"];
        let p1 = run_bin(&bin, &a, b"", false);
        let p2 = run_bin(&bin, &a, b"", true);
        emit(json!({"usage":"ok","file":"missing","cmd":cmd,"lib":dummy}), &p1, &p2);
    }
    for a in [vec!["exec"], vec!["frobnicate", "x.rock"], vec!["exec", "a.rock", "b.rock"], vec!["lint"], vec!["--no-such-flag"]] {
        let p1 = run_bin(&bin, &a, b"", false);
        let p2 = run_bin(&bin, &a, b"", true);
        emit(json!({"usage":"bad","file":"ok","cmd":a[0],"lib":dummy}), &p1, &p2);
    }
    0
}
