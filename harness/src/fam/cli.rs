//! Recorder for CliTrace (C20): runs the built `rrss` binary on a file and records, next to the process observation,
//! what the library does in-process with the same text and standard input.

use serde_json::{json, Value as J};
use std::io::Write;
use std::process::{Command, Stdio};

use crate::fam::lex::concretise_src;
use crate::sup::extract;

struct Proc {
    stdout: String,
    stderr: String,
    code: i32,
}

fn run_bin(bin: &str, args: &[&str], stdin: &[u8], merged: bool) -> Proc {
    let mut cmd = if merged {
        let mut c = Command::new("sh");
        let mut line = format!("exec '{}'", bin);
        for a in args {
            line.push_str(&format!(" '{}'", a));
        }
        line.push_str(" 2>&1");
        c.arg("-c").arg(line);
        c
    } else {
        let mut c = Command::new(bin);
        c.args(args);
        c
    };
    cmd.env_remove("CLICOLOR_FORCE").env("NO_COLOR", "1").stdin(Stdio::piped()).stdout(Stdio::piped()).stderr(Stdio::piped());
    let mut child = cmd.spawn().expect("cannot start the rrss binary");
    {
        let mut si = child.stdin.take().unwrap();
        let _ = si.write_all(stdin);
    }
    let out = child.wait_with_output().expect("cannot wait for rrss");
    Proc {
        stdout: String::from_utf8_lossy(&out.stdout).into_owned(),
        stderr: String::from_utf8_lossy(&out.stderr).into_owned(),
        code: out.status.code().unwrap_or(-1),
    }
}

/// The same command with colours forced on (as on a terminal): standard output and standard error with the ANSI colour
/// sequences (ESC [ ... m) taken out again.
fn run_coloured_stripped(bin: &str, args: &[&str], stdin: &[u8]) -> (String, String) {
    let mut cmd = Command::new(bin);
    cmd.args(args).env_remove("NO_COLOR").env("CLICOLOR_FORCE", "1").stdin(Stdio::piped()).stdout(Stdio::piped()).stderr(Stdio::piped());
    let mut child = cmd.spawn().expect("cannot start the rrss binary");
    {
        let mut si = child.stdin.take().unwrap();
        let _ = si.write_all(stdin);
    }
    let out = child.wait_with_output().expect("cannot wait for rrss");
    let strip = |b: &[u8]| -> String {
        let s = String::from_utf8_lossy(b).into_owned();
        let mut r = String::with_capacity(s.len());
        let mut it = s.chars().peekable();
        while let Some(c) = it.next() {
            if c == '\u{1b}' && it.peek() == Some(&'[') {
                it.next();
                for d in it.by_ref() {
                    if d == 'm' {
                        break;
                    }
                }
            } else {
                r.push(c);
            }
        }
        r
    };
    (strip(&out.stdout), strip(&out.stderr))
}

/// Runs `rrss exec FILE` with stdin held open: does any standard-output byte arrive BEFORE any input is provided?
/// (a `say` writes its line before the next statement - here a `listen` - runs).  Then the input is sent and the run ends.
fn prompt_arrives_first(bin: &str, file: &str, stdin: &[u8]) -> bool {
    use std::io::Read;
    let mut child = Command::new(bin)
        .args(["exec", file])
        .env("NO_COLOR", "1")
        .stdin(Stdio::piped())
        .stdout(Stdio::piped())
        .stderr(Stdio::null())
        .spawn()
        .expect("cannot start the rrss binary");
    let mut so = child.stdout.take().unwrap();
    let (tx, rx) = std::sync::mpsc::channel();
    let t = std::thread::spawn(move || {
        let mut b = [0u8; 1];
        let got = matches!(so.read(&mut b), Ok(1));
        let _ = tx.send(got);
        let mut rest = Vec::new();
        let _ = so.read_to_end(&mut rest);
    });
    let first = rx.recv_timeout(std::time::Duration::from_millis(15000)).unwrap_or(false);
    {
        let mut si = child.stdin.take().unwrap();
        let _ = si.write_all(stdin);
    }
    let _ = child.wait();
    let _ = t.join();
    first
}

/// Runs `rrss exec FILE` with a standard output nobody reads (closed pipe): the failing write must surface as a reported
/// runtime error.
fn run_with_closed_stdout(bin: &str, file: &str, stdin: &[u8]) -> Proc {
    use std::os::unix::io::FromRawFd;
    let mut fds = [0i32; 2];
    unsafe {
        libc::pipe(fds.as_mut_ptr());
        libc::close(fds[0]);
    }
    let mut child = Command::new(bin)
        .args(["exec", file])
        .env("NO_COLOR", "1")
        .stdin(Stdio::piped())
        .stdout(unsafe { Stdio::from_raw_fd(fds[1]) })
        .stderr(Stdio::piped())
        .spawn()
        .expect("cannot start the rrss binary");
    {
        let mut si = child.stdin.take().unwrap();
        let _ = si.write_all(stdin);
    }
    let out = child.wait_with_output().expect("cannot wait for rrss");
    Proc { stdout: String::new(), stderr: String::from_utf8_lossy(&out.stderr).into_owned(), code: out.status.code().unwrap_or(-1) }
}

fn lines_of(out: &str) -> Vec<String> {
    let mut v: Vec<String> = out.split('\n').map(|s| s.to_string()).collect();
    assert_eq!(v.pop().as_deref(), Some(""), "library output does not end with a line end");
    v
}

fn lib_outcome(cmd: &str, text: &str, stdin: &[u8]) -> J {
    // a panic of the library (while running, or while rendering its error) is an observation, not a failure of the recorder
    match std::panic::catch_unwind(|| lib_outcome0(cmd, text, stdin)) {
        Ok(j) => j,
        Err(p) => json!({"k":"library-panicked","msg":crate::exec::panic_msg(p)}),
    }
}

fn lib_outcome0(cmd: &str, text: &str, stdin: &[u8]) -> J {
    match rrss::frontend::parser::parse(text) {
        Err(e) => json!({"k":"parse_error","msg":e.to_string()}),
        Ok(prog) => match cmd {
            "exec" => {
                let mut out = Vec::new();
                let r = rrss::exec::exec_using(stdin, &mut out, &prog);
                let out = String::from_utf8_lossy(&out).into_owned();
                json!({"k":"run","out":lines_of(&out),"err": match r { Ok(()) => json!([]), Err(e) => json!([e.to_string()]) }})
            }
            "lint" => {
                let ds = rrss::linter::standard_linter().run(&prog).diags;
                json!({"k":"diags","ds": ds.iter().map(|d| json!({"line":d.line,"issue":d.issue,"suggs":d.suggestions})).collect::<Vec<_>>()})
            }
            _ => json!({"k":"tree","dump":format!("{:#?}", prog)}),
        },
    }
}

pub fn record(args: &[String]) -> i32 {
    let mut input = None;
    let mut out = None;
    let mut bin = std::env::var("VH_RRSS_BIN").ok();
    let mut dir = std::env::temp_dir().to_string_lossy().into_owned();
    let mut i = 0;
    while i < args.len() {
        match args[i].as_str() {
            "--in" => { input = Some(args[i + 1].clone()); i += 1 }
            "--out" => { out = Some(args[i + 1].clone()); i += 1 }
            "--bin" => { bin = Some(args[i + 1].clone()); i += 1 }
            "--dir" => { dir = args[i + 1].clone(); i += 1 }
            "--seed" | "--n" | "--maxlen" => { i += 1 }
            a => { eprintln!("unknown option {}", a); return 2 }
        }
        i += 1;
    }
    let bin = bin.expect("--bin or VH_RRSS_BIN required");
    let mut f = std::fs::File::create(out.expect("--out required")).expect("cannot create trace file");
    let file = format!("{}/vh-cli-{}.rock", dir, std::process::id());
    let text_in = std::fs::read_to_string(input.expect("--in required")).expect("cannot read cases");
    fn emit_to(f: &mut std::fs::File, p: J, proc: &Proc, merged: &Proc) {
        writeln!(f, "{}", json!({"p": p, "proc": {"stdout": proc.stdout, "stderr": proc.stderr, "code": proc.code, "merged": merged.stdout}})).unwrap();
    }
    for line in text_in.lines() {
        let rec: J = match extract(line).and_then(|j| serde_json::from_str(&j).ok()) {
            Some(r) => r,
            None => continue,
        };
        // (a raw text is taken as it is; a rendered one is over the model alphabet)
        let text = if rec["raw"] == true { rec["text"].as_str().unwrap().to_string() } else { concretise_src(rec["text"].as_str().unwrap()) };
        let stdin: Vec<u8> = rec.get("inp").and_then(|x| x.as_array()).map_or(Vec::new(), |a| {
            a.iter().flat_map(|c| crate::jv::concretise(c.as_str().unwrap()).into_bytes()).collect()
        });
        std::fs::write(&file, &text).unwrap();
        // process-level I/O behaviour of `exec`
        if std::env::var("VH_CLI_DET_ONLY").is_ok() {
            // (not in the determinism-only mode)
        } else if let Ok(prog) = rrss::frontend::parser::parse(&text) {
            let obs = crate::exec::run(&prog, &crate::exec::RunCfg { input: vec![stdin.clone()], out_budget: None, in_fail_at: None, no_events: true });
            let first_io_is_write = obs.log.iter().find_map(|e| match e {
                crate::exec::Ev::Write(_) => Some(true),
                crate::exec::Ev::Read(_) | crate::exec::Ev::ReadFail => Some(false),
                _ => None,
            });
            let reads = obs.log.iter().any(|e| matches!(e, crate::exec::Ev::Read(_)));
            if first_io_is_write == Some(true) && reads {
                let got = prompt_arrives_first(&bin, &file, &stdin);
                writeln!(f, "{}", json!({"p": {"usage":"ok","file":"ok","cmd":"exec","lib":{"k":"prompt"}}, "proc": {"stdout":"","stderr":"","code":0,"merged":"","prompt_first":got}})).unwrap();
            }
            if first_io_is_write == Some(true) {
                let p = run_with_closed_stdout(&bin, &file, &stdin);
                writeln!(f, "{}", json!({"p": {"usage":"ok","file":"ok","cmd":"exec","lib":{"k":"stdout_closed"}}, "proc": {"stdout":"","stderr":p.stderr,"code":p.code,"merged":""}})).unwrap();
            }
        }
        let mentions_listen = text.to_lowercase().contains("listen");
        let variants: Vec<Vec<u8>> = if mentions_listen { vec![stdin.clone(), b"caf\xe9\nmore\n".to_vec()] } else { vec![stdin.clone()] };
        for (stdin, cmd) in variants.iter().flat_map(|v| ["exec", "lint", "parse"].into_iter().map(move |c| (v.clone(), c))) {
            if stdin != variants[0] && cmd != "exec" {
                continue;
            }
            if std::env::var("VH_CLI_DET_ONLY").is_ok() {
                // C10 at the process level: the same command four times, every observation must be the same; nothing else is judged here
                let first = run_bin(&bin, &[cmd, &file], &stdin, false);
                for _ in 0..3 {
                    let again = run_bin(&bin, &[cmd, &file], &stdin, false);
                    if again.stdout != first.stdout || again.stderr != first.stderr || again.code != first.code {
                        emit_to(&mut f, json!({"usage":"ok","file":"ok","cmd":cmd,"lib":{"k":"nondeterministic"}}), &again, &first);
                        break;
                    }
                }
                continue;
            }
            let lib = lib_outcome(cmd, &text, &stdin);
            // the model's own run of the program, when it determines the outcome, must be what the library did
            if cmd == "exec" && lib["k"] == "run" && stdin == variants[0] {
                if let (Some(st), Some(mout)) = (rec.get("st").and_then(|x| x.as_str()), rec.get("out").and_then(|x| x.as_str())) {
                    let lib_out: String = lib["out"].as_array().unwrap().iter().map(|l| format!("{}\n", l.as_str().unwrap())).collect();
                    if (st == "ok" || st == "err") && (lib_out != mout || (st == "ok") != lib["err"].as_array().unwrap().is_empty()) {
                        let none = Proc { stdout: String::new(), stderr: String::new(), code: 0 };
                        emit_to(&mut f, json!({"usage":"ok","file":"ok","cmd":cmd,"lib":{"k":"model-disagrees","lib":lib,"model_out":mout,"model_st":st}}), &none, &none);
                    }
                }
            }
            let p1 = run_bin(&bin, &[cmd, &file], &stdin, false);
            let p2 = run_bin(&bin, &[cmd, &file], &stdin, true);
            let p3 = run_bin(&bin, &[cmd, &file], &stdin, false);
            if p3.stdout != p1.stdout || p3.stderr != p1.stderr || p3.code != p1.code {
                // a second process must behave identically (C10 across processes)
                emit_to(&mut f, json!({"usage":"ok","file":"ok","cmd":cmd,"lib":{"k":"nondeterministic"}}), &p3, &p2);
            }
            // on a terminal the same text arrives, in colour
            let (cs, ce) = run_coloured_stripped(&bin, &[cmd, &file], &stdin);
            if cs != p1.stdout || ce != p1.stderr {
                let c = Proc { stdout: cs, stderr: ce, code: p1.code };
                emit_to(&mut f, json!({"usage":"ok","file":"ok","cmd":cmd,"lib":{"k":"colour-changes-text"}}), &c, &p2);
            }
            emit_to(&mut f, json!({"usage":"ok","file":"ok","cmd":cmd,"lib":lib}), &p1, &p2);
        }
    }
    let _ = std::fs::remove_file(&file);
    if std::env::var("VH_CLI_DET_ONLY").is_ok() {
        return 0;
    }
    // missing file and bad usage
    let dummy = json!({"k":"tree","dump":""});
    for cmd in ["exec", "lint", "parse"] {
        let a = [cmd, "/nonexistent/dir/none.rock"];
        let p1 = run_bin(&bin, &a, b"", false);
        let p2 = run_bin(&bin, &a, b"", true);
        emit_to(&mut f, json!({"usage":"ok","file":"missing","cmd":cmd,"lib":dummy}), &p1, &p2);
    }
    for a in [vec!["exec"], vec!["frobnicate", "x.rock"], vec!["exec", "a.rock", "b.rock"], vec!["lint"], vec!["--no-such-flag"]] {
        let p1 = run_bin(&bin, &a, b"", false);
        let p2 = run_bin(&bin, &a, b"", true);
        emit_to(&mut f, json!({"usage":"bad","file":"ok","cmd":a[0],"lib":dummy}), &p1, &p2);
    }
    0
}
