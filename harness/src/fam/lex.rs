//! Families `lex` (the real token stream equals the model's, token by token: kind, byte slice, start and end
//! position) and `total` (lexing + parsing any text returns, and an error renders).

use rrss::frontend::lexer::{Lexer, TokenType};
use rrss::frontend::parser::parse;
use serde_json::{json, Value as J};
use std::panic::{catch_unwind, AssertUnwindSafe};

use crate::exec::panic_msg;
use crate::Verdict;

/// model place-holders -> the characters they stand for
pub fn concretise_src(s: &str) -> String {
    let mut out = String::with_capacity(s.len() + 8);
    for c in s.chars() {
        match c {
            '~' => out.push('\u{e9}'),
            '^' => out.push('\u{c9}'),
            '%' => out.push('\u{212a}'),
            '$' => out.push('\u{130}'),
            '@' => out.push('\u{bd}'),
            '`' => out.push('\u{20ac}'),
            '#' => out.push('\u{1f600}'),
            '|' => out.push('\u{3000}'),
            '\u{c}' => out.push('\u{1}'),
            c => out.push(c),
        }
    }
    out
}

/// The model's place-holders stand for CLASSES of characters (what Rust's char predicates say, and the UTF-8 width); a second member
/// of each class, of the same width: the lexer may not tell them apart.  None when the text has no such place-holder.
pub fn concretise_alt(s: &str) -> Option<String> {
    let mut out = String::with_capacity(s.len() + 8);
    let mut any = false;
    for c in s.chars() {
        let alt = match c {
            '~' => Some('\u{f1}'),     // n with tilde: lower-case letter, 2 bytes
            '^' => Some('\u{d1}'),     // N with tilde: capital letter, 2 bytes
            '@' => Some('\u{be}'),     // three quarters: numeric, no digit, 2 bytes
            '`' => Some('\u{feff}'),   // byte-order mark / zero-width no-break space: no letter, digit, blank or ASCII punctuation, 3 bytes
            '#' => Some('\u{1f4a9}'),  // another 4-byte symbol
            '|' => Some('\u{2003}'),   // em space: white space, 3 bytes
            '\u{c}' => Some('\u{7f}'), // DEL: a control character, 1 byte
            ';' => Some('#'),          // another ignorable punctuation character (with `!` after it: the start of a script's interpreter line)
            _ => None,
        };
        match alt {
            Some(a) => { any = true; out.push(a) }
            None => out.push_str(&concretise_src(&c.to_string())),
        }
    }
    if any { Some(out) } else { None }
}

pub fn kind_name(t: &TokenType) -> String {
    match t {
        TokenType::StringLiteral(_) => "string".into(),
        TokenType::Number(_) => "number".into(),
        TokenType::Comment(_) => "comment".into(),
        TokenType::Error(_) => "error".into(),
        TokenType::CommonVariablePrefix => "prefix".into(),
        TokenType::ApostropheS => "apos_s".into(),
        TokenType::ApostropheRE => "apos_re".into(),
        TokenType::ApostropheNApostrophe => "apos_n".into(),
        other => format!("{:?}", other).to_lowercase(),
    }
}

pub fn tokens_json(text: &str) -> Vec<J> {
    let base = text.as_ptr() as usize;
    Lexer::new(text)
        .map(|t| {
            let b = t.spelling.as_ptr() as usize - base;
            json!({
                "id": kind_name(&t.id),
                "b": b, "e": b + t.spelling.len(),
                "sl": t.range.start().line, "sc": t.range.start().column,
                "el": t.range.end().line, "ec": t.range.end().column,
            })
        })
        .collect()
}

pub fn check_lex(rec: &J) -> Verdict {
    let v = check_lex_as(rec, &concretise_src(rec["src"].as_str().unwrap()));
    if v.st != "ok" {
        return v;
    }
    // the same text with the other member of each character class
    if let Some(alt) = concretise_alt(rec["src"].as_str().unwrap()) {
        let w = check_lex_as(rec, &alt);
        if w.st != "ok" {
            return Verdict::viol(format!("{} (with the second member of each character class: {:?})", w.msg, alt), w.obs);
        }
    }
    v
}

fn check_lex_as(rec: &J, src: &str) -> Verdict {
    let got = match catch_unwind(AssertUnwindSafe(|| tokens_json(src))) {
        Ok(t) => t,
        Err(p) => return Verdict::viol(format!("lexer panicked: {}", panic_msg(p)), J::Null),
    };
    let exp = rec["toks"].as_array().unwrap();
    let mut ok = got.len() == exp.len();
    if ok {
        for (g, e) in got.iter().zip(exp) {
            for f in ["id", "b", "e", "sl", "sc", "el", "ec"] {
                if g[f] != e[f] {
                    ok = false;
                }
            }
        }
    }
    if !ok {
        return Verdict::viol("token stream differs from the model".into(), json!({"tokens": got}));
    }
    Verdict::ok(!exp.is_empty())
}

/// C01 on long flat texts (MC_Flat.tla): `pre unit^reps post`.
pub fn check_flat(rec: &J) -> Verdict {
    let unit = concretise_src(rec["unit"].as_str().unwrap());
    let k = rec["reps"].as_u64().unwrap() as usize;
    let text = format!("{}{}{}", concretise_src(rec["pre"].as_str().unwrap()), unit.repeat(k), concretise_src(rec["post"].as_str().unwrap()));
    let v = check_total(&json!({"text": text}));
    if v.st == "viol" {
        return Verdict::viol(format!("{} ({} repetitions of the unit)", v.msg, k), json!({"repetitions": k}));
    }
    v
}

/// C01: parsing returns Ok or a renderable Err.
pub fn check_total(rec: &J) -> Verdict {
    let src = match rec.get("text").and_then(|t| t.as_str()) {
        Some(t) => t.to_string(),
        None => concretise_src(rec["src"].as_str().unwrap()),
    };
    let r = catch_unwind(AssertUnwindSafe(|| match parse(&src) {
        Ok(p) => {
            let _ = format!("{:?}", p);
            ("ok".to_string(), p.code.len())
        }
        Err(e) => (format!("err: {}", e), 0),
    }));
    // the same text with the second member of each character class (crash-only, like the first)
    if rec.get("text").is_none() {
        if let Some(alt) = concretise_alt(rec["src"].as_str().unwrap()) {
            let a = catch_unwind(AssertUnwindSafe(|| {
                let _ = parse(&alt).map(|p| format!("{:?}", p)).map_err(|e| e.to_string());
                let _ = match rrss::cli::parser::run(&alt) { Ok(o) => o.to_string(), Err(e) => e.to_string() };
            }));
            if let Err(p) = a {
                return Verdict::viol(format!("parse panicked (with the second member of each character class: {:?}): {}", alt, panic_msg(p)), J::Null);
            }
        }
    }
    // the same text through the command-line layer's parse entry (src/cli/parser.rs: the parse error is re-rendered there)
    let c = catch_unwind(AssertUnwindSafe(|| match rrss::cli::parser::run(&src) {
        Ok(o) => o.to_string().len(),
        Err(e) => e.to_string().len(),
    }));
    if let Err(p) = c {
        return Verdict::viol(format!("cli::parser::run panicked while parsing or rendering: {}", panic_msg(p)), J::Null);
    }
    match r {
        Ok((outcome, n)) => Verdict::ok_with(!src.trim().is_empty(), json!({"outcome": if n > 0 {"program"} else if outcome == "ok" {"empty"} else {"error"}})),
        Err(p) => Verdict::viol(format!("parse panicked: {}", panic_msg(p)), J::Null),
    }
}
