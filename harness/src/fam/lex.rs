//! Families `lex` (the real token stream equals the model's, token by token: kind, byte slice, start and end
//! position) and `total` (lexing + parsing any text returns, and an error renders).

use rrss::frontend::lexer::{Lexer, TokenType};
use rrss::frontend::parser::parse;
use serde_json::{json, Value as J};
use std::panic::{catch_unwind, AssertUnwindSafe};

use crate::exec::panic_msg;
use crate::Verdict;

/// model place-holders -> the characters they stand for
pub fn concretise_src(s: &str) -> String {
    let mut out = String::with_capacity(s.len() + 8);
    for c in s.chars() {
        match c {
            '~' => out.push('\u{e9}'),
            '^' => out.push('\u{c9}'),
            '%' => out.push('\u{212a}'),
            '$' => out.push('\u{130}'),
            '@' => out.push('\u{bd}'),
            '`' => out.push('\u{20ac}'),
            '#' => out.push('\u{1f600}'),
            '|' => out.push('\u{3000}'),
            '\u{c}' => out.push('\u{1}'),
            c => out.push(c),
        }
    }
    out
}

pub fn kind_name(t: &TokenType) -> String {
    match t {
        TokenType::StringLiteral(_) => "string".into(),
        TokenType::Number(_) => "number".into(),
        TokenType::Comment(_) => "comment".into(),
        TokenType::Error(_) => "error".into(),
        TokenType::CommonVariablePrefix => "prefix".into(),
        TokenType::ApostropheS => "apos_s".into(),
        TokenType::ApostropheRE => "apos_re".into(),
        TokenType::ApostropheNApostrophe => "apos_n".into(),
        other => format!("{:?}", other).to_lowercase(),
    }
}

pub fn tokens_json(text: &str) -> Vec<J> {
    let base = text.as_ptr() as usize;
    Lexer::new(text)
        .map(|t| {
            let b = t.spelling.as_ptr() as usize - base;
            json!({
                "id": kind_name(&t.id),
                "b": b, "e": b + t.spelling.len(),
                "sl": t.range.start().line, "sc": t.range.start().column,
                "el": t.range.end().line, "ec": t.range.end().column,
            })
        })
        .collect()
}

pub fn check_lex(rec: &J) -> Verdict {
    let src = concretise_src(rec["src"].as_str().unwrap());
    let got = match catch_unwind(AssertUnwindSafe(|| tokens_json(&src))) {
        Ok(t) => t,
        Err(p) => return Verdict::viol(format!("lexer panicked: {}", panic_msg(p)), J::Null),
    };
    let exp = rec["toks"].as_array().unwrap();
    let mut ok = got.len() == exp.len();
    if ok {
        for (g, e) in got.iter().zip(exp) {
            for f in ["id", "b", "e", "sl", "sc", "el", "ec"] {
                if g[f] != e[f] {
                    ok = false;
                }
            }
        }
    }
    if !ok {
        return Verdict::viol("token stream differs from the model".into(), json!({"tokens": got}));
    }
    Verdict::ok(!exp.is_empty())
}

/// C01 on long flat texts (MC_Flat.tla): `pre unit^reps post`.
pub fn check_flat(rec: &J) -> Verdict {
    let unit = concretise_src(rec["unit"].as_str().unwrap());
    let k = rec["reps"].as_u64().unwrap() as usize;
    let text = format!("{}{}{}", concretise_src(rec["pre"].as_str().unwrap()), unit.repeat(k), concretise_src(rec["post"].as_str().unwrap()));
    let v = check_total(&json!({"text": text}));
    if v.st == "viol" {
        return Verdict::viol(format!("{} ({} repetitions of the unit)", v.msg, k), json!({"repetitions": k}));
    }
    v
}

/// C01: parsing returns Ok or a renderable Err.
pub fn check_total(rec: &J) -> Verdict {
    let src = match rec.get("text").and_then(|t| t.as_str()) {
        Some(t) => t.to_string(),
        None => concretise_src(rec["src"].as_str().unwrap()),
    };
    let r = catch_unwind(AssertUnwindSafe(|| match parse(&src) {
        Ok(p) => {
            let _ = format!("{:?}", p);
            ("ok".to_string(), p.code.len())
        }
        Err(e) => (format!("err: {}", e), 0),
    }));
    // the same text through the command-line layer's parse entry (src/cli/parser.rs: the parse error is re-rendered there)
    let c = catch_unwind(AssertUnwindSafe(|| match rrss::cli::parser::run(&src) {
        Ok(o) => o.to_string().len(),
        Err(e) => e.to_string().len(),
    }));
    if let Err(p) = c {
        return Verdict::viol(format!("cli::parser::run panicked while parsing or rendering: {}", panic_msg(p)), J::Null);
    }
    match r {
        Ok((outcome, n)) => Verdict::ok_with(!src.trim().is_empty(), json!({"outcome": if n > 0 {"program"} else if outcome == "ok" {"empty"} else {"error"}})),
        Err(p) => Verdict::viol(format!("parse panicked: {}", panic_msg(p)), J::Null),
    }
}
